use serde_json::{json, Value};
pub fn frame(_req: Value) -> Value { json!({"harness_error": "not implemented"}) }
pub fn repl(_req: Value) -> Value { json!({"harness_error": "not implemented"}) }
