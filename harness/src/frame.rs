//! frame (C25): the repository's own `Message`/`MessageStream` (private items of src/dummy.rs, compiled from the real file)
//! driven over an in-memory stream that serves reads in arbitrary chunk sizes; repl (C25): DummyVM::eval histories.
#![allow(dead_code, unused_imports, clippy::all)]
use serde_json::{json, Value};

use crate::guarded;

mod real_dummy {
    include!(concat!(env!("VERIF_REPO"), "/src/dummy.rs"));

    /// In-memory duplex: everything written is appended to `data`; reads return at most the next chunk size.
    pub struct Chunked {
        pub data: Vec<u8>,
        pub pos: usize,
        pub chunks: Vec<usize>,
        pub next: usize,
        pub reads: usize,
    }

    impl Read for Chunked {
        fn read(&mut self, buf: &mut [u8]) -> std::io::Result<usize> {
            if self.pos >= self.data.len() || buf.is_empty() {
                return Ok(0);
            }
            let c = if self.chunks.is_empty() { usize::MAX } else { self.chunks[self.next % self.chunks.len()].max(1) };
            self.next += 1;
            self.reads += 1;
            let n = buf.len().min(c).min(self.data.len() - self.pos);
            buf[..n].copy_from_slice(&self.data[self.pos..self.pos + n]);
            self.pos += n;
            Ok(n)
        }
    }

    impl Write for Chunked {
        fn write(&mut self, buf: &[u8]) -> std::io::Result<usize> {
            self.data.extend_from_slice(buf);
            Ok(buf.len())
        }
        fn flush(&mut self) -> std::io::Result<()> {
            Ok(())
        }
    }

    /// msgs: (inst byte, payload); returns the wire bytes and what recv_msg decodes under the chunking.
    pub fn roundtrip(msgs: Vec<(u8, Vec<u8>)>, chunks: Vec<usize>) -> (usize, Vec<Result<(u8, usize, Vec<u8>), String>>) {
        let inner = Chunked { data: vec![], pos: 0, chunks, next: 0, reads: 0 };
        let mut stream = MessageStream::new(inner);
        let n = msgs.len();
        for (inst, payload) in msgs {
            let data = if payload.is_empty() { None } else { Some(payload) };
            let m = Message::new(Inst::from(inst), data);
            stream.send_msg(&m).unwrap();
        }
        let wire = stream.stream.data.len();
        let mut out = vec![];
        for _ in 0..n {
            match stream.recv_msg() {
                Ok(m) => out.push(Ok((m.inst as u8, m.size as usize, m.data.unwrap_or_default()))),
                Err(e) => {
                    out.push(Err(format!("{:?}", e.kind())));
                    break;
                }
            }
        }
        (wire, out)
    }

    /// decode a given wire image (produced by the reference encoder) with the real recv_msg
    pub fn decode(wire: Vec<u8>, chunks: Vec<usize>, n: usize) -> Vec<Result<(u8, usize, Vec<u8>), String>> {
        let inner = Chunked { data: wire, pos: 0, chunks, next: 0, reads: 0 };
        let mut stream = MessageStream::new(inner);
        let mut out = vec![];
        for _ in 0..n {
            match stream.recv_msg() {
                Ok(m) => out.push(Ok((m.inst as u8, m.size as usize, m.data.unwrap_or_default()))),
                Err(e) => {
                    out.push(Err(format!("{:?}", e.kind())));
                    break;
                }
            }
        }
        out
    }

    /// encode messages with the real send_msg, return the wire image
    pub fn encode(msgs: Vec<(u8, Vec<u8>)>) -> Vec<u8> {
        let inner = Chunked { data: vec![], pos: 0, chunks: vec![], next: 0, reads: 0 };
        let mut stream = MessageStream::new(inner);
        for (inst, payload) in msgs {
            let data = if payload.is_empty() { None } else { Some(payload) };
            stream.send_msg(&Message::new(Inst::from(inst), data)).unwrap();
        }
        stream.stream.data
    }

    pub fn new_repl_vm(name: &str) -> DummyVM {
        use erg_common::io::{DummyStdin, Input};
        let cfg = ErgConfig {
            input: Input::dummy_repl(DummyStdin::new(name.to_string(), vec![])),
            quiet_repl: true,
            ..Default::default()
        };
        DummyVM::new(cfg)
    }

    pub fn vm_eval(vm: &mut DummyVM, src: String) -> Result<String, String> {
        match <DummyVM as Runnable>::eval(vm, src) {
            Ok(s) => Ok(s),
            Err(errs) => Err(format!("{} compile error(s): {}", errs.len(), errs.iter().map(|e| e.core.main_message.clone()).collect::<Vec<_>>().join(" | "))),
        }
    }
}

fn payload(id: u64, len: usize) -> Vec<u8> {
    // unique, self-describing payload: "<id>:" then a repeating pattern derived from the id
    let mut v = format!("{id}:").into_bytes();
    let mut x = id.wrapping_mul(0x9E3779B97F4A7C15) | 1;
    while v.len() < len {
        x ^= x << 13;
        x ^= x >> 7;
        x ^= x << 17;
        v.push(b'a' + (x % 26) as u8);
    }
    v.truncate(len);
    v
}

fn summarize(r: &Result<(u8, usize, Vec<u8>), String>) -> Value {
    match r {
        Ok((inst, size, data)) => {
            let head: String = String::from_utf8_lossy(&data[..data.len().min(24)]).to_string();
            let mut h: u64 = 0xcbf29ce484222325;
            for b in data {
                h ^= *b as u64;
                h = h.wrapping_mul(0x100000001b3);
            }
            json!({"inst": inst, "size": size, "len": data.len(), "head": head, "fnv": format!("{h:016x}")})
        }
        Err(e) => json!({"err": e}),
    }
}

/// {"mode": "roundtrip", "msgs": [[inst, id, len], ...], "chunks": [..]}
/// {"mode": "decode", "wire_hex": "...", "chunks": [..], "n": k}      (wire produced by the monitor's reference encoder)
/// {"mode": "encode", "msgs": [[inst, id, len], ...]}               -> wire_hex
pub fn frame(req: Value) -> Value {
    guarded(move || {
        let chunks: Vec<usize> = req["chunks"].as_array().map(|a| a.iter().map(|v| v.as_u64().unwrap() as usize).collect()).unwrap_or_default();
        let msgs = |req: &Value| -> Vec<(u8, Vec<u8>)> {
            req["msgs"].as_array().unwrap().iter().map(|m| {
                let inst = m[0].as_u64().unwrap() as u8;
                (inst, payload(m[1].as_u64().unwrap(), m[2].as_u64().unwrap() as usize))
            }).collect()
        };
        match req["mode"].as_str().unwrap_or("roundtrip") {
            "roundtrip" => {
                let (wire, out) = real_dummy::roundtrip(msgs(&req), chunks);
                json!({"wire_len": wire, "recv": out.iter().map(summarize).collect::<Vec<_>>()})
            }
            "decode" => {
                let hex = req["wire_hex"].as_str().unwrap();
                let wire: Vec<u8> = (0..hex.len() / 2).map(|i| u8::from_str_radix(&hex[2 * i..2 * i + 2], 16).unwrap()).collect();
                let out = real_dummy::decode(wire, chunks, req["n"].as_u64().unwrap() as usize);
                json!({"recv": out.iter().map(summarize).collect::<Vec<_>>()})
            }
            "encode" => {
                let wire = real_dummy::encode(msgs(&req));
                let hex: String = wire.iter().map(|b| format!("{b:02x}")).collect();
                json!({"wire_hex": hex})
            }
            other => json!({"harness_error": format!("unknown mode {other}")}),
        }
    })
}

/// {"inputs": ["src1", "src2", ...]} -> {"results": [{"ok": "..."} | {"err": "..."}]}   (one fresh VM + server per request)
pub fn repl(req: Value) -> Value {
    guarded(move || {
        let name = format!("vh_repl_{}", std::process::id());
        let mut vm = real_dummy::new_repl_vm(&name);
        let mut results = vec![];
        for inp in req["inputs"].as_array().unwrap() {
            let src = inp.as_str().unwrap().to_string();
            match real_dummy::vm_eval(&mut vm, src) {
                Ok(s) => results.push(json!({"ok": s})),
                Err(e) => results.push(json!({"err": e})),
            }
        }
        drop(vm);
        json!({"results": results})
    })
}
