use serde_json::{json, Value};
pub fn els_sync(_req: Value) -> Value { json!({"harness_error": "not implemented"}) }
pub fn els_diag(_req: Value) -> Value { json!({"harness_error": "not implemented"}) }
pub fn els_rename(_req: Value) -> Value { json!({"harness_error": "not implemented"}) }
