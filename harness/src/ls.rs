//! els-sync (C28), els-diag (C29), els-rename (C30): the real language server driven in-process through molc's FakeClient.
//! One server per process (each server owns background threads), so every subcommand handles the first request line only.
use std::panic::{catch_unwind, AssertUnwindSafe};
use std::path::Path;
use std::time::Duration;

use els::{NormalizedUrl, Server};
use erg_common::vfs::VFS;
use lsp_types::notification::{DidChangeTextDocument, DidOpenTextDocument, DidSaveTextDocument};
use lsp_types::{
    DidChangeTextDocumentParams, DidOpenTextDocumentParams, DidSaveTextDocumentParams, Position, Range,
    TextDocumentContentChangeEvent, TextDocumentIdentifier, TextDocumentItem, Url, VersionedTextDocumentIdentifier,
};
use molc::FakeClient;
use serde_json::{json, Value};

use crate::LAST_PANIC;

fn take_panic() -> String {
    LAST_PANIC.lock().ok().and_then(|mut g| g.take()).unwrap_or_else(|| "unknown".into())
}

fn changes_of(v: &Value) -> Vec<TextDocumentContentChangeEvent> {
    v.as_array()
        .unwrap()
        .iter()
        .map(|c| {
            let range = c["range"].as_array().map(|r| {
                let n = |i: usize| r[i].as_u64().unwrap() as u32;
                Range::new(Position::new(n(0), n(1)), Position::new(n(2), n(3)))
            });
            TextDocumentContentChangeEvent { range, range_length: None, text: c["text"].as_str().unwrap().to_string() }
        })
        .collect()
}

fn start(path: &str, text: &str) -> Result<(FakeClient<Server>, Url), String> {
    let mut client = Server::bind_fake_client();
    client.request_initialize().map_err(|e| format!("initialize: {e}"))?;
    client.notify_initialized().map_err(|e| format!("initialized: {e}"))?;
    let uri = Url::from_file_path(Path::new(path)).map_err(|_| "bad path".to_string())?;
    let params = DidOpenTextDocumentParams { text_document: TextDocumentItem::new(uri.clone(), "erg".to_string(), 1, text.to_string()) };
    client.notify::<DidOpenTextDocument>(params).map_err(|e| format!("didOpen: {e}"))?;
    Ok((client, uri))
}

fn server_text(client: &FakeClient<Server>, uri: &Url) -> Value {
    let nuri = NormalizedUrl::new(uri.clone());
    let cache = client.server.get_file_cache().get_entire_code(&nuri).ok();
    let vfs = VFS.read(uri.to_file_path().unwrap()).ok();
    json!({"cache": cache, "vfs": vfs})
}

/// {"path": "/abs/doc.er", "open_text": "...", "notifications": [{"changes": [{"range": [sl,sc,el,ec]|null, "text": ".."}]}]}
/// -> {"steps": [{"cache": text, "vfs": text} | {"panic": ..} | {"error": ..}]}   (step 0 = after didOpen)
pub fn els_sync(req: Value) -> Value {
    let path = req["path"].as_str().unwrap().to_string();
    let started = catch_unwind(AssertUnwindSafe(|| start(&path, req["open_text"].as_str().unwrap())));
    let (mut client, uri) = match started {
        Ok(Ok(x)) => x,
        Ok(Err(e)) => return json!({"harness_error": e}),
        Err(_) => return json!({"steps": [{"panic": take_panic()}]}),
    };
    let mut steps = vec![server_text(&client, &uri)];
    let mut ver = 2;
    for n in req["notifications"].as_array().unwrap() {
        let params = DidChangeTextDocumentParams {
            text_document: VersionedTextDocumentIdentifier::new(uri.clone(), ver),
            content_changes: changes_of(&n["changes"]),
        };
        ver += 1;
        let r = catch_unwind(AssertUnwindSafe(|| client.notify::<DidChangeTextDocument>(params)));
        match r {
            Ok(Ok(())) => steps.push(server_text(&client, &uri)),
            Ok(Err(e)) => steps.push(json!({"error": format!("{e}")})),
            Err(_) => {
                steps.push(json!({"panic": take_panic()}));
                break;
            }
        }
    }
    json!({"steps": steps})
}

fn drain(client: &mut FakeClient<Server>, settle_ms: u64, max_ms: u64) -> usize {
    let t0 = std::time::Instant::now();
    loop {
        let before = client.responses.len();
        let _ = client.wait_with_timeout::<Value>(Duration::from_millis(settle_ms));
        if client.responses.len() == before || t0.elapsed() > Duration::from_millis(max_ms) {
            return client.responses.len();
        }
    }
}

fn last_diagnostics(client: &FakeClient<Server>) -> Value {
    let mut last = serde_json::Map::new();
    let mut count = 0;
    for m in client.responses.iter() {
        if m.get("method").and_then(|v| v.as_str()) == Some("textDocument/publishDiagnostics") {
            count += 1;
            let uri = m["params"]["uri"].as_str().unwrap_or("").to_string();
            last.insert(uri, m["params"]["diagnostics"].clone());
        }
    }
    json!({"last": last, "publish_count": count, "messages": client.responses.len()})
}

/// {"path", "open_text", "notifications": [{"changes": [...], "save": bool}], "settle_ms": n}
/// -> {"diagnostics": {"last": {uri: [...]}, ...}, "final_text": ...}
pub fn els_diag(req: Value) -> Value {
    let path = req["path"].as_str().unwrap().to_string();
    let settle = req["settle_ms"].as_u64().unwrap_or(2500);
    let r = catch_unwind(AssertUnwindSafe(|| -> Result<Value, String> {
        let (mut client, uri) = start(&path, req["open_text"].as_str().unwrap())?;
        drain(&mut client, settle, 60_000);
        let mut ver = 2;
        for n in req["notifications"].as_array().unwrap() {
            let params = DidChangeTextDocumentParams {
                text_document: VersionedTextDocumentIdentifier::new(uri.clone(), ver),
                content_changes: changes_of(&n["changes"]),
            };
            ver += 1;
            client.notify::<DidChangeTextDocument>(params).map_err(|e| format!("didChange: {e}"))?;
            if n["save"].as_bool().unwrap_or(false) {
                // the client writes the file before it says it saved it
                let text = client.server.get_file_cache().get_entire_code(&NormalizedUrl::new(uri.clone())).map_err(|e| format!("{e}"))?;
                std::fs::write(&path, &text).map_err(|e| format!("{e}"))?;
                client
                    .notify::<DidSaveTextDocument>(DidSaveTextDocumentParams { text_document: TextDocumentIdentifier::new(uri.clone()), text: None })
                    .map_err(|e| format!("didSave: {e}"))?;
            }
            if n["drain"].as_bool().unwrap_or(false) {
                drain(&mut client, settle, 60_000);
            }
        }
        drain(&mut client, settle, 120_000);
        // stability re-check: nothing may arrive during a second, longer silence window
        let n1 = client.responses.len();
        let d1 = last_diagnostics(&client);
        drain(&mut client, settle * 2, 120_000);
        let d2 = last_diagnostics(&client);
        let text = server_text(&client, &uri);
        Ok(json!({"diagnostics": d2, "stable": d1["last"] == d2["last"], "late_messages": client.responses.len() - n1, "final_text": text["cache"]}))
    }));
    match r {
        Ok(Ok(v)) => v,
        Ok(Err(e)) => json!({"error": e}),
        Err(_) => json!({"panic": take_panic()}),
    }
}

/// {"path", "text", "requests": [[line, col, "new_name"], ...]} -> {"edits": [WorkspaceEdit|null|{"error"}]}
pub fn els_rename(req: Value) -> Value {
    let path = req["path"].as_str().unwrap().to_string();
    let r = catch_unwind(AssertUnwindSafe(|| -> Result<Value, String> {
        let text = req["text"].as_str().unwrap();
        std::fs::write(&path, text).map_err(|e| format!("{e}"))?;
        let (mut client, uri) = start(&path, text)?;
        drain(&mut client, 1500, 60_000);
        let mut out = vec![];
        for q in req["requests"].as_array().unwrap() {
            let (line, col) = (q[0].as_u64().unwrap() as u32, q[1].as_u64().unwrap() as u32);
            let new_name = q[2].as_str().unwrap();
            let r = catch_unwind(AssertUnwindSafe(|| client.request_rename(uri.clone(), line, col, new_name)));
            match r {
                Ok(Ok(edit)) => out.push(serde_json::to_value(edit).unwrap_or(Value::Null)),
                Ok(Err(e)) => out.push(json!({"error": format!("{e}")})),
                Err(_) => {
                    out.push(json!({"panic": take_panic()}));
                    break;
                }
            }
        }
        Ok(json!({"edits": out}))
    }));
    match r {
        Ok(Ok(v)) => v,
        Ok(Err(e)) => json!({"error": e}),
        Err(_) => json!({"panic": take_panic()}),
    }
}
