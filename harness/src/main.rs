//! vh — in-process observation adapter for the /verif monitors.
//!
//! Every subcommand reads JSON-lines requests on stdin and writes one JSON line per request on stdout.
//! It only *records* what the repository's API returned; all judgement is done by the Python monitors.
use std::io::{BufRead, Write};
use std::panic::{catch_unwind, AssertUnwindSafe};
use std::sync::Mutex;

use serde_json::{json, Value};

mod basic;
mod compiler;
mod frame;
mod lexparse;
mod ls;

pub static LAST_PANIC: Mutex<Option<String>> = Mutex::new(None);

fn install_panic_hook() {
    std::panic::set_hook(Box::new(|info| {
        let loc = info
            .location()
            .map(|l| format!("{}:{}", l.file(), l.line()))
            .unwrap_or_default();
        let msg = if let Some(s) = info.payload().downcast_ref::<&str>() {
            s.to_string()
        } else if let Some(s) = info.payload().downcast_ref::<String>() {
            s.clone()
        } else {
            "<non-string panic>".to_string()
        };
        let mut short: String = msg.chars().take(300).collect();
        short = short.replace('\n', " ");
        if let Ok(mut g) = LAST_PANIC.lock() {
            // keep the first panic of a request (later ones are usually consequences)
            if g.is_none() {
                *g = Some(format!("{loc}: {short}"));
            }
        }
    }));
}

/// Runs `f` catching panics; on panic returns `{"panic": "file:line: msg"}`.
pub fn guarded<F: FnOnce() -> Value>(f: F) -> Value {
    if let Ok(mut g) = LAST_PANIC.lock() {
        *g = None;
    }
    match catch_unwind(AssertUnwindSafe(f)) {
        Ok(v) => v,
        Err(_) => {
            let p = LAST_PANIC
                .lock()
                .ok()
                .and_then(|mut g| g.take())
                .unwrap_or_else(|| "unknown".into());
            json!({ "panic": p })
        }
    }
}

/// The whole request loop already runs on one big-stack thread (see main), so this is `guarded`.
pub fn guarded_big_stack<F: FnOnce() -> Value + Send + 'static>(f: F) -> Value {
    guarded(f)
}

fn main() {
    install_panic_hook();
    // one long-lived worker with a large stack: parser/lowerer recursion must not be limited by the 8 MB main stack,
    // and spawning a big-stack thread per request costs more than the request
    let h = std::thread::Builder::new()
        .stack_size(512 * 1024 * 1024)
        .spawn(real_main)
        .unwrap();
    let _ = h.join();
}

fn real_main() {
    let args: Vec<String> = std::env::args().collect();
    if args.len() < 2 {
        eprintln!("usage: vh <subcommand>   (JSON lines on stdin)");
        std::process::exit(2);
    }
    let sub = args[1].clone();
    // one-shot subcommands (no per-line requests)
    match sub.as_str() {
        "opcodes" => {
            println!("{}", basic::opcodes());
            return;
        }
        "pystd" => {
            println!("{}", lexparse::pystd(&args[2]));
            return;
        }
        _ => {}
    }
    let handler: Box<dyn FnMut(Value) -> Value> = match sub.as_str() {
        "path" => Box::new(basic::path),
        "pred" => Box::new(basic::pred),
        "graph" => Box::new(basic::graph),
        "tsort" => Box::new(basic::tsort_cmd),
        "lex" => Box::new(lexparse::lex),
        "parse" => Box::new(lexparse::parse),
        "frame" => Box::new(frame::frame),
        "errors" => Box::new(compiler::errors),
        "typedump" => Box::new(compiler::typedump),
        "subtype" => Box::new(compiler::subtype),
        "els-sync" => Box::new(ls::els_sync),
        "els-diag" => Box::new(ls::els_diag),
        "els-rename" => Box::new(ls::els_rename),
        "repl" => Box::new(frame::repl),
        other => {
            eprintln!("unknown subcommand {other}");
            std::process::exit(2);
        }
    };
    let mut handler = handler;
    let stdin = std::io::stdin();
    let stdout = std::io::stdout();
    for line in stdin.lock().lines() {
        let Ok(line) = line else { break };
        if line.trim().is_empty() {
            continue;
        }
        let req: Value = match serde_json::from_str(&line) {
            Ok(v) => v,
            Err(e) => {
                let mut out = stdout.lock();
                let _ = writeln!(out, "{}", json!({"harness_error": format!("bad json: {e}")}));
                continue;
            }
        };
        let resp = handler(req);
        let mut out = stdout.lock();
        let _ = writeln!(out, "{}", resp);
        let _ = out.flush();
    }
}
