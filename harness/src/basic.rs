//! opcodes (C16), path (C31), pred (C32), graph / tsort (C21)
use std::path::PathBuf;

use erg_common::opcode::CommonOpcode;
use erg_common::opcode308::Opcode308;
use erg_common::opcode309::Opcode309;
use erg_common::opcode310::Opcode310;
use erg_common::opcode::CompareOp;
use erg_common::opcode311::{BinOpCode, Opcode311};
use erg_common::pathutil::NormalizedPathBuf;
use erg_common::serialize::get_ver_from_magic_num;
use erg_common::set::Set;
use erg_common::tsort::{tsort, Node, TopoSortErrorKind};
use erg_common::Str;
use erg_compiler::module::ModuleGraph;
use erg_compiler::ty::{Predicate, TyParam, ValueObj};
use serde_json::{json, Map, Value};

use crate::guarded;

// ---------------------------------------------------------------- C16
pub fn opcodes() -> Value {
    let mut tables = Map::new();
    macro_rules! table {
        ($name:literal, $T:ty) => {{
            let mut m = Map::new();
            for b in 0u16..=255 {
                let b = b as u8;
                if let Ok(op) = <$T>::try_from(b) {
                    let back: u8 = op.into();
                    m.insert(b.to_string(), json!({"name": format!("{op:?}"), "back": back}));
                }
            }
            tables.insert($name.to_string(), Value::Object(m));
        }};
    }
    table!("common", CommonOpcode);
    table!("308", Opcode308);
    table!("309", Opcode309);
    table!("310", Opcode310);
    table!("311", Opcode311);
    table!("binop311", BinOpCode);
    table!("cmpop", CompareOp);
    let jumps: Vec<u8> = (0u16..=255)
        .map(|b| b as u8)
        .filter(|b| CommonOpcode::is_jump_op(*b))
        .collect();
    let mut magic = Map::new();
    for m in 3300u32..3700 {
        let r = guarded(|| {
            let v = get_ver_from_magic_num(m);
            json!({"major": v.major, "minor": v.minor, "micro": v.micro})
        });
        magic.insert(m.to_string(), r);
    }
    json!({"tables": tables, "is_jump_op": jumps, "magic": magic})
}

// ---------------------------------------------------------------- C31
/// {"p": "<path>"} -> {"norm": "<normalized>", "again": "<normalized twice>"}
pub fn path(req: Value) -> Value {
    let p = req["p"].as_str().unwrap_or("").to_string();
    guarded(move || {
        let n = NormalizedPathBuf::new(PathBuf::from(&p));
        let s = n.to_string_lossy().to_string();
        let again = NormalizedPathBuf::new(n.to_path_buf());
        // `key` is a canonical representative of NormalizedPathBuf equality (PathBuf compares component-wise)
        let key: Vec<String> = n
            .as_path()
            .components()
            .map(|c| c.as_os_str().to_string_lossy().to_string())
            .collect();
        json!({"norm": s, "key": key, "again": again.to_string_lossy().to_string(), "eq_again": again == n})
    })
}

// ---------------------------------------------------------------- C32
fn build_pred(v: &Value, use_ops: bool) -> Predicate {
    let a = v.as_array().expect("pred node must be array");
    let tag = a[0].as_str().unwrap();
    let var: Str = Str::ever("I");
    let cst = |i: usize| -> TyParam {
        let n = a[i].as_i64().unwrap();
        if n >= 0 {
            TyParam::value(n as u64)
        } else {
            TyParam::value(n as i32)
        }
    };
    match tag {
        "true" => Predicate::TRUE,
        "false" => Predicate::FALSE,
        "eq" => Predicate::eq(var, cst(1)),
        "ne" => Predicate::ne(var, cst(1)),
        "ge" => Predicate::ge(var, cst(1)),
        "le" => Predicate::le(var, cst(1)),
        "gt" => Predicate::gt(var, cst(1)),
        "lt" => Predicate::lt(var, cst(1)),
        "and" => {
            let (l, r) = (build_pred(&a[1], use_ops), build_pred(&a[2], use_ops));
            if use_ops {
                l & r
            } else {
                Predicate::and(l, r)
            }
        }
        "or" => {
            let (l, r) = (build_pred(&a[1], use_ops), build_pred(&a[2], use_ops));
            if use_ops {
                l | r
            } else {
                Predicate::or(l, r)
            }
        }
        "not" => {
            let p = build_pred(&a[1], use_ops);
            if use_ops {
                !p
            } else {
                p.invert()
            }
        }
        other => panic!("unknown pred tag {other}"),
    }
}

fn dump_tp(tp: &TyParam) -> Value {
    match tp {
        TyParam::Value(ValueObj::Int(i)) => json!(i),
        TyParam::Value(ValueObj::Nat(n)) => json!(n),
        TyParam::Value(ValueObj::Bool(b)) => json!(b),
        other => json!({"unknown_tp": format!("{other}")}),
    }
}

pub fn dump_pred(p: &Predicate) -> Value {
    match p {
        Predicate::Value(ValueObj::Bool(b)) => json!([if *b { "true" } else { "false" }]),
        Predicate::Equal { lhs, rhs } => json!(["eq", dump_tp(rhs), lhs.to_string()]),
        Predicate::NotEqual { lhs, rhs } => json!(["ne", dump_tp(rhs), lhs.to_string()]),
        Predicate::GreaterEqual { lhs, rhs } => json!(["ge", dump_tp(rhs), lhs.to_string()]),
        Predicate::LessEqual { lhs, rhs } => json!(["le", dump_tp(rhs), lhs.to_string()]),
        Predicate::And(l, r) => json!(["and", dump_pred(l), dump_pred(r)]),
        Predicate::Or(set) => {
            let mut v = vec![json!("or*")];
            for p in set.iter() {
                v.push(dump_pred(p));
            }
            Value::Array(v)
        }
        Predicate::Not(p) => json!(["not", dump_pred(p)]),
        other => json!(["unknown", format!("{other}")]),
    }
}

/// {"tree": [...], "ops": bool} -> {"dump": [...]}
pub fn pred(req: Value) -> Value {
    guarded(move || {
        let use_ops = req["ops"].as_bool().unwrap_or(false);
        let p = build_pred(&req["tree"], use_ops);
        json!({"dump": dump_pred(&p), "display": format!("{p}")})
    })
}

// ---------------------------------------------------------------- C21
fn np(s: &str) -> NormalizedPathBuf {
    NormalizedPathBuf::new(PathBuf::from(s))
}

fn set_to_sorted(it: impl Iterator<Item = String>) -> Vec<String> {
    let mut v: Vec<String> = it.collect();
    v.sort();
    v
}

/// {"universe": [paths], "ops": [[op, args...], ...]} -> {"steps": [ {result, snapshot}, ... ]}
/// ops: ["add", p] | ["inc_ref", from, to] | ["import", from, to] (= add(to) + inc_ref(from,to), as build_package does)
///      | ["remove", p] | ["rename", old, new] | ["sort"]
/// After every op a snapshot of all queries over the universe is recorded.
pub fn graph(req: Value) -> Value {
    guarded(move || {
        let universe: Vec<String> = req["universe"]
            .as_array()
            .unwrap()
            .iter()
            .map(|v| v.as_str().unwrap().to_string())
            .collect();
        let mut g = ModuleGraph::new();
        let mut steps = vec![];
        for op in req["ops"].as_array().unwrap() {
            let a = op.as_array().unwrap();
            let s = |i: usize| a[i].as_str().unwrap();
            let result = match s(0) {
                "add" => {
                    g.add_node_if_none(&np(s(1)));
                    json!("ok")
                }
                "inc_ref" => match g.inc_ref(&np(s(1)), np(s(2))) {
                    Ok(()) => json!("ok"),
                    Err(e) => json!(format!("{e:?}")),
                },
                "import" => {
                    g.add_node_if_none(&np(s(2)));
                    match g.inc_ref(&np(s(1)), np(s(2))) {
                        Ok(()) => json!("ok"),
                        Err(e) => json!(format!("{e:?}")),
                    }
                }
                "remove" => {
                    g.remove(&np(s(1)));
                    json!("ok")
                }
                "rename" => {
                    g.rename_path(&np(s(1)), np(s(2)));
                    json!("ok")
                }
                "sort" => match g.sort() {
                    Ok(()) => json!("ok"),
                    Err(e) => json!(format!("{:?}", e.kind)),
                },
                other => panic!("unknown graph op {other}"),
            };
            // snapshot
            let mut nodes = Map::new();
            let order: Vec<String> = g.iter().map(|n| n.id.to_string_lossy().to_string()).collect();
            for u in universe.iter() {
                let pu = np(u);
                let node = g.get_node(&pu).map(|n| {
                    json!({
                        "id": n.id.to_string_lossy().to_string(),
                        "deps": set_to_sorted(n.depends_on.iter().map(|p| p.to_string_lossy().to_string())),
                    })
                });
                let parents = g
                    .parents(&pu)
                    .map(|s| set_to_sorted(s.iter().map(|p| p.to_string_lossy().to_string())));
                let children = set_to_sorted(g.children(&pu).map(|p| p.to_string_lossy().to_string()));
                let ancestors = set_to_sorted(
                    g.ancestors(&pu)
                        .iter()
                        .map(|p| p.to_string_lossy().to_string()),
                );
                let mut dep = vec![];
                let mut deep = vec![];
                for t in universe.iter() {
                    let pt = np(t);
                    if g.depends_on(&pu, &pt) {
                        dep.push(t.clone());
                    }
                    if g.deep_depends_on(&pu, &pt) {
                        deep.push(t.clone());
                    }
                }
                nodes.insert(
                    u.clone(),
                    json!({"node": node, "parents": parents, "children": children,
                           "ancestors": ancestors, "depends_on": dep, "deep_depends_on": deep}),
                );
            }
            steps.push(json!({"result": result, "order": order, "q": nodes}));
        }
        json!({"steps": steps})
    })
}

/// {"nodes": [[id, [deps...]], ...]} -> {"ok": [ids in order]} | {"err": "Cyclic"|"KeyNotFound"}
pub fn tsort_cmd(req: Value) -> Value {
    guarded(move || {
        let mut g = vec![];
        for n in req["nodes"].as_array().unwrap() {
            let id = Str::rc(n[0].as_str().unwrap());
            let deps: Set<Str> = n[1]
                .as_array()
                .unwrap()
                .iter()
                .map(|d| Str::rc(d.as_str().unwrap()))
                .collect();
            g.push(Node::new(id, (), deps));
        }
        match tsort(g) {
            Ok(sorted) => {
                json!({"ok": sorted.iter().map(|n| n.id.to_string()).collect::<Vec<_>>()})
            }
            Err(e) => json!({"err": match e.kind {
                TopoSortErrorKind::CyclicReference => "Cyclic",
                TopoSortErrorKind::KeyNotFound => "KeyNotFound",
            }}),
        }
    })
}
