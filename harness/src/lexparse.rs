//! lex (C08), parse (C09/C10/C11), pystd (C27)
use erg_common::error::{ErrorCore, Location};
use erg_common::traits::{DequeStream, Stream};
use erg_parser::ast::{Accessor, Expr, Signature, VarPattern, VisModifierSpec};
use erg_parser::lex::Lexer;
use erg_parser::parse::SimpleParser;
use erg_parser::token::Token;
use serde_json::{json, Value};

use crate::guarded_big_stack;

pub fn loc_json(loc: &Location) -> Value {
    match loc {
        Location::Range {
            ln_begin,
            col_begin,
            ln_end,
            col_end,
        } => json!({"k": "range", "lb": ln_begin, "cb": col_begin, "le": ln_end, "ce": col_end}),
        Location::LineRange(a, b) => json!({"k": "lines", "lb": a, "le": b}),
        Location::Line(a) => json!({"k": "line", "lb": a}),
        Location::Unknown => json!({"k": "unknown"}),
    }
}

pub fn core_json(core: &ErrorCore) -> Value {
    json!({
        "kind": format!("{:?}", core.kind),
        "errno": core.errno,
        "msg": core.main_message,
        "loc": loc_json(&core.loc),
    })
}

fn tok_json(t: &Token) -> Value {
    json!({"k": format!("{:?}", t.kind), "c": t.content.to_string(), "l": t.lineno, "b": t.col_begin, "e": t.col_end})
}

/// {"src": "..."} -> {"ok": bool, "tokens": [...], "errors": [...]}
pub fn lex(req: Value) -> Value {
    let src = req["src"].as_str().unwrap_or("").to_string();
    guarded_big_stack(move || match Lexer::from_str(src).lex() {
        Ok(ts) => {
            let toks: Vec<Value> = ts.iter().map(tok_json).collect();
            json!({"ok": true, "tokens": toks, "errors": []})
        }
        Err((ts, errs)) => {
            let toks: Vec<Value> = ts.iter().map(tok_json).collect();
            let es: Vec<Value> = errs
                .into_iter()
                .map(|e| core_json(&ErrorCore::from(e)))
                .collect();
            json!({"ok": false, "tokens": toks, "errors": es})
        }
    })
}

/// {"src": "..."} -> {"ok": bool, "ast": "<display dump>", "errors": [...], "warns": n}
pub fn parse(req: Value) -> Value {
    let src = req["src"].as_str().unwrap_or("").to_string();
    let want_ast = req["ast"].as_bool().unwrap_or(true);
    guarded_big_stack(move || match SimpleParser::parse(src) {
        Ok(art) => {
            let dump = if want_ast { format!("{}", art.ast) } else { String::new() };
            json!({"ok": true, "ast": dump, "errors": [], "warns": art.warns.len()})
        }
        Err(iart) => {
            let es: Vec<Value> = iart
                .errors
                .into_iter()
                .map(|e| core_json(&ErrorCore::from(e)))
                .collect();
            json!({"ok": false, "ast": iart.ast.map(|m| format!("{m}")), "errors": es, "warns": iart.warns.len()})
        }
    })
}

fn ident_public(vis: &VisModifierSpec) -> bool {
    matches!(vis, VisModifierSpec::Public(_))
}

/// parse one declaration file, list the top-level declared names
pub fn pystd(path: &str) -> Value {
    let path = path.to_string();
    guarded_big_stack(move || {
        let src = match std::fs::read_to_string(&path) {
            Ok(s) => s,
            Err(e) => return json!({"harness_error": format!("{e}")}),
        };
        let module = match SimpleParser::parse(src) {
            Ok(art) => art.ast,
            Err(iart) => {
                let es: Vec<Value> = iart
                    .errors
                    .into_iter()
                    .map(|e| core_json(&ErrorCore::from(e)))
                    .collect();
                return json!({"parse_errors": es});
            }
        };
        let mut decls = vec![];
        for chunk in module.iter() {
            match chunk {
                Expr::TypeAscription(tasc) => {
                    if let Expr::Accessor(Accessor::Ident(id)) = tasc.expr.as_ref() {
                        decls.push(json!({"form": "asc", "name": id.inspect().to_string(), "op": tasc.t_spec.op.content.to_string(),
                            "public": ident_public(&id.vis), "line": id.name.token().lineno}));
                    } else {
                        decls.push(json!({"form": "asc-other", "text": format!("{}", tasc.expr).trim().to_string()}));
                    }
                }
                Expr::Def(def) => {
                    if let Signature::Var(sig) = &def.sig {
                        if let VarPattern::Ident(id) = &sig.pat {
                            let mut alias = None;
                            let mut body_kind = "other";
                            if let Some(Expr::TypeAscription(tasc)) = def.body.block.first() {
                                if let Expr::Accessor(Accessor::Ident(pid)) = tasc.expr.as_ref() {
                                    alias = Some(pid.inspect().to_string());
                                    body_kind = "alias";
                                }
                            }
                            decls.push(json!({"form": "def", "name": id.inspect().to_string(), "public": ident_public(&id.vis),
                                "alias": alias, "body": body_kind, "line": id.name.token().lineno}));
                        }
                    } else if let Signature::Subr(sig) = &def.sig {
                        decls.push(json!({"form": "subr-def", "name": sig.ident.inspect().to_string(),
                            "public": ident_public(&sig.ident.vis)}));
                    }
                }
                _ => {}
            }
        }
        json!({"decls": decls})
    })
}
