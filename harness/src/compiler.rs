use serde_json::{json, Value};
pub fn errors(_req: Value) -> Value { json!({"harness_error": "not implemented"}) }
pub fn typedump(_req: Value) -> Value { json!({"harness_error": "not implemented"}) }
pub fn subtype(_req: Value) -> Value { json!({"harness_error": "not implemented"}) }
