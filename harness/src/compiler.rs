//! errors (C07/C22/C23/C24): full front-end pipeline diagnostics; subtype (C03/C06): types elaborated from SOURCE type
//! specs by the real lowerer, then the N x N Context::subtype_of matrix.
use erg_common::config::ErgConfig;
use erg_common::io::Output;
use erg_common::traits::{Runnable, Stream};
use erg_compiler::error::CompileErrors;
use erg_compiler::lower::ASTLowerer;
use erg_compiler::ty::{ParamTy, Type};
use erg_compiler::HIRBuilder;
use serde_json::{json, Value};

use crate::guarded;
use crate::lexparse::core_json;

fn errs_json(errs: &CompileErrors) -> Vec<Value> {
    errs.iter()
        .map(|e| {
            let mut v = core_json(&e.core);
            v["caused_by"] = json!(e.caused_by);
            v["sub"] = json!(e.core.sub_messages.iter().map(|s| format!("{:?}", s.loc)).collect::<Vec<_>>());
            v
        })
        .collect()
}

/// {"src": "..."} -> {"ok": bool, "errors": [...], "warns": [...]}   (parse + lower + effect/ownership checks, no codegen)
pub fn errors(req: Value) -> Value {
    let src = req["src"].as_str().unwrap_or("").to_string();
    guarded(move || {
        let mut cfg = ErgConfig::string(src.clone());
        cfg.output = Output::Null;
        let mut builder = HIRBuilder::new(cfg);
        match builder.build(src, "exec") {
            Ok(art) => json!({"ok": true, "errors": [], "warns": errs_json(&art.warns)}),
            Err(iart) => json!({"ok": false, "errors": errs_json(&iart.errors), "warns": errs_json(&iart.warns)}),
        }
    })
}

pub fn typedump(_req: Value) -> Value {
    json!({"harness_error": "not implemented"})
}

fn first_param_type(t: &Type) -> Option<Type> {
    let t = match t {
        Type::Quantified(inner) => inner.as_ref(),
        other => other,
    };
    if let Type::Subr(subr) = t {
        subr.non_default_params.first().map(|p| match p {
            ParamTy::Pos(t) => t.clone(),
            ParamTy::Kw { ty, .. } | ParamTy::KwWithDefault { ty, .. } => ty.clone(),
            _ => Type::Failure,
        })
    } else {
        None
    }
}

/// {"specs": ["Nat", "{I: Int | I >= 0}", ...]} -> {"types": [display|null], "matrix": [[bool|null]]}
/// matrix[i][j] = subtype_of(T_i, T_j)
pub fn subtype(req: Value) -> Value {
    guarded(move || {
        let specs: Vec<String> = req["specs"].as_array().unwrap().iter().map(|s| s.as_str().unwrap().to_string()).collect();
        let mut src = String::new();
        for (i, s) in specs.iter().enumerate() {
            src.push_str(&format!("tspec{i}(x: {s}) = x\n"));
        }
        let mut cfg = ErgConfig::string(src.clone());
        cfg.output = Output::Null;
        let mut lowerer = ASTLowerer::new(cfg);
        let res = lowerer.exec();
        let errors = match res {
            Ok(_) => vec![],
            Err(errs) => errs_json(&errs),
        };
        let Some(module) = lowerer.pop_mod_ctx() else {
            return json!({"harness_error": "no module context", "errors": errors});
        };
        let ctx = &module.context;
        let types: Vec<Option<Type>> = (0..specs.len())
            .map(|i| ctx.get_var_info(&format!("tspec{i}")).and_then(|(_, vi)| first_param_type(&vi.t)))
            .collect();
        let shown: Vec<Value> = types.iter().map(|t| t.as_ref().map(|t| json!(format!("{t}"))).unwrap_or(Value::Null)).collect();
        let mut matrix = vec![];
        let mut panics: Vec<Value> = vec![];
        for (i, a) in types.iter().enumerate() {
            let mut row = vec![];
            for (j, b) in types.iter().enumerate() {
                match (a, b) {
                    (Some(a), Some(b)) => {
                        // a panic inside the comparison is reported per pair (entry "panic"), not for the whole matrix
                        match std::panic::catch_unwind(std::panic::AssertUnwindSafe(|| ctx.subtype_of(a, b))) {
                            Ok(v) => row.push(json!(v)),
                            Err(_) => {
                                row.push(json!("panic"));
                                if panics.len() < 50 {
                                    panics.push(json!([i, j, crate::LAST_PANIC.lock().ok().and_then(|mut g| g.take()).unwrap_or_default()]));
                                }
                            }
                        }
                    }
                    _ => row.push(Value::Null),
                }
            }
            matrix.push(Value::Array(row));
        }
        json!({"types": shown, "matrix": matrix, "errors": errors, "panics": panics})
    })
}
