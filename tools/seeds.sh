#!/bin/bash
# usage: tools/seeds.sh PID tier seed...   -- run a check at several seeds, print the last line + rc of each
pid=$1; tier=$2; shift 2
for s in "$@"; do
  out=$(VERIF_SEED=$s /verif/bin/check $pid --tier $tier 2>&1); rc=$?
  echo "seed=$s rc=$rc $(echo "$out" | grep -c '^KNOWN-FINDING') known; $(echo "$out" | grep -E '^(OK|VIOLATION|INCONCLUSIVE)' | head -3 | tr '\n' '|')"
done
