#!/usr/bin/env python3
"""tools/keep_seed.py <ID> <patchfile> <name> : copy a confirmed seeded change into /verif/seeded/<name>/
(patch.diff, the demonstration with its small inputs, meta.json).  Development-time tool."""
import json, os, shutil, sys, re, glob

pid, patch, name = sys.argv[1:4]
src = f"/tmp/seeds/{pid}"
dst = f"/verif/seeded/{name}"
os.makedirs(dst, exist_ok=True)
shutil.copy(patch, f"{dst}/patch.diff")
skip = re.compile(r"(\.log|_test\.log|tests.*\.txt|_pass\.txt|TASK\.md|confirm\..*|patch.*\.diff)$")
for f in os.listdir(src):
    p = os.path.join(src, f)
    if skip.search(f) or f in ("target", "logs", "w", "scratch"):
        continue
    if os.path.isdir(p):
        size = sum(os.path.getsize(os.path.join(r, x)) for r, _, fs in os.walk(p) for x in fs if "target" not in r)
        if size < 400_000:
            shutil.copytree(p, os.path.join(dst, "demo", f), dirs_exist_ok=True, ignore=shutil.ignore_patterns("target", "*.pyc", "__pycache__", "Cargo.lock"))
    elif os.path.getsize(p) < 200_000:
        os.makedirs(f"{dst}/demo", exist_ok=True)
        shutil.copy(p, f"{dst}/demo/{f}")
metas = []
for f in sorted(glob.glob(f"{src}/meta*.json")):
    try:
        metas.append(json.load(open(f)))
    except Exception:
        pass
m = metas[0] if metas else {}
logs = []
for base in ("/tmp/confirm_all.log", "/tmp/confirm2.log", "/tmp/confirm3.log"):
    if os.path.exists(base):
        for line in open(base):
            if line.startswith("SUMMARY") and f"id={pid} " in line and f"patch={os.path.basename(patch)} " in line:
                logs.append(line.strip())
out = {
    "property": pid,
    "source_patch": os.path.basename(patch),
    "summary": m.get("summary") if isinstance(m, dict) else None,
    "needs_to_manifest": (m.get("needs") if isinstance(m, dict) else None),
    "agent_meta": metas,
    "confirmation": {
        "how": "tools/confirm_seed.sh in a scratch worktree: build unchanged, demo must exit 0; git apply patch, rebuild, demo must exit 1; "
               "cargo test --workspace --no-fail-fast --offline with the change (els completion tests are timing-flaky under load and are re-run alone)",
        "results": logs,
    },
    "checks_run": [],
}
if os.path.exists(f"{dst}/meta.json"):
    old = json.load(open(f"{dst}/meta.json"))
    out["checks_run"] = old.get("checks_run", [])
json.dump(out, open(f"{dst}/meta.json", "w"), indent=1)
print("kept", dst)
