#!/bin/bash
# usage: tools/run_all.sh <tier> <seed> <lanes> [IDs...]   -- runs the registered checks, `lanes` at a time; one line per check in .work/run_all.<tier>.<seed>.txt
tier=$1; seed=$2; lanes=$3; shift 3
ids=${@:-$(seq -f "C%02g" 1 34)}
out=/verif/.work/run_all.$tier.$seed.txt; : > $out
run() { id=$1; s=$(date +%s); VERIF_SEED=$seed /verif/bin/check $id --tier $tier > /verif/.work/run_all.$tier.$seed.$id.log 2>&1; rc=$?
  echo "$id rc=$rc $(( $(date +%s) - s ))s $(grep -E '^(OK|INCONCLUSIVE|VIOLATION)' /verif/.work/run_all.$tier.$seed.$id.log | tail -1 | cut -c1-170)" >> $out; }
export -f run; export tier seed out
printf "%s\n" $ids | xargs -P $lanes -I{} bash -c 'run {}'
echo "done: $(grep -c 'rc=0' $out) ok, $(grep -vc 'rc=0' $out) not ok"
