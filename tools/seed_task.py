#!/usr/bin/env python3
"""Write /tmp/seeds/<ID>/TASK.md for a mutation sub-agent (property text only, nothing about /verif's checks)."""
import json, sys, os

TEMPLATE = """# Task: seed a realistic property-breaking change into erg-lang/erg

You work ONLY inside your own scratch git worktree of the Erg compiler: `{wt}` (a checkout of the pinned commit).
Do not read or write `/repo` or `/verif` (both are off-limits). Write your deliverables to `{out}/`.

## The property (this is all you are given)

**{id} — {title}**

Statement: {statement}

Quantified over: {quant}

Code the property is anchored in (relative to the worktree): {files}

## What to produce

A *small, realistic* source change to Erg (the kind of slip a maintainer could make in a refactor/optimisation/bug-fix:
an off-by-one, a dropped case, a swapped operand, a wrong table entry, a missing lock/yield, a too-eager cache, two
sites that each look fine alone …) such that:

1. the tree still compiles (`cargo build --offline`) and the **existing test suite still passes unedited**
   (`cargo test --workspace --no-fail-fast --offline`; all 230 tests that pass on the unchanged tree must still pass —
   run it on the unchanged tree first if you want the reference list);
2. the property above is **violated** by the changed tree (and was not violated in the same way by the unchanged tree);
3. the violation needs *something specific* to manifest — a particular interleaving, an unusual input or literal value,
   a multi-step sequence of operations, a specific nesting/position, a particular Python target version, or two
   cooperating sites — NOT something that ordinary use (hello-world, the examples, the test corpus) would expose at once.

Prefer a change in the core logic the property is about (not in error-message text, not a blanket `panic!()`).
If you can find two quite different changes, deliver both (patch1.diff / patch2.diff …), but one good one is enough.

## Deliverables in `{out}/`

* `patch.diff` — `git diff` of your change against the worktree's HEAD (must apply with `git apply` to a clean checkout).
* `demo.sh` — executable; usage `demo.sh <worktree>`; it builds nothing itself except what it needs, uses the binary
  `<worktree>/target/debug/erg` (and/or a tiny Rust test/example it compiles against the worktree's crates) and
  **exits 0 when the property holds on its input (unchanged tree) and exits 1 when it is violated (changed tree)**.
  Keep inputs it needs next to it in `{out}/`.
* `meta.json` — {{"property": "{id}", "summary": "...what the change does...", "needs": "...what specific input/
  schedule/sequence/version is needed for it to manifest...", "files_changed": [...], "tests_run": "...command and
  pass/fail counts with the change applied...", "demo_unchanged": "exit code", "demo_changed": "exit code"}}.

## Environment facts (no network; everything is offline)

* IMPORTANT: the build copies the standard library to `$HOME/.erg`. To keep your edits from leaking to other users of
  this machine, run EVERY cargo/erg command with this environment:
  `export HOME={wt}/.home CARGO_HOME=/root/.cargo RUSTUP_HOME=/root/.rustup PYENV_ROOT=/root/.pyenv CARGO_NET_OFFLINE=true; mkdir -p $HOME`
  and never set `ERG_PATH`. (If you edit files under `crates/erg_compiler/lib`, rebuild so they are re-copied.)
* Build: `cd {wt} && cargo build --offline --features els` (≈ 2 min cold). Binary: `target/debug/erg`.
  Modes: `erg run f.er`, `erg check f.er`, `erg compile f.er`, `erg transpile f.er`, `erg --mode lex|parse|typecheck f.er`,
  `erg -o N …`, `erg --py-command /root/.pyenv/versions/3.9.18/bin/python3 compile f.er`.
  Interpreters: `/root/.pyenv/versions/{{3.7.16,3.8.18,3.9.18,3.10.13,3.11.7,3.12.1,3.13.0}}/bin/python3` (default python3 = 3.11.7).
* For in-process demonstrations you may add a Rust integration test or example *in your deliverable directory* as a
  tiny cargo crate with path dependencies on `{wt}/crates/...` (copy `{wt}/Cargo.lock` into it so it resolves offline),
  or put a `#[test]` in a new file under the worktree — but then it is part of the demo, not of patch.diff.
* The machine is shared with other builds: ALWAYS pass `-j 4` to cargo (build and test), and do not leave processes running.
* Known: the `els` integration-test target (`cargo test -p els --test test`, 17 tests) is timing-flaky when the machine is
  loaded (completion tests assert `items.len() >= N`); if only those fail, re-run that target alone a few times before
  concluding anything, and say what you saw.  The worktree is a checkout of the current development head (a few upstream
  defects have already been fixed there), so judge "unchanged tree" by what this worktree does, not by upstream.
* When you are done: make sure `patch.diff` is saved, then leave the worktree with your change **reverted**
  (`git checkout -- . && git status` clean apart from untracked build output); leave `target/` in place.

## Report back

A short summary: what you changed, why it breaks the property, what is needed to trigger it, the test-suite result with
the change, and demo.sh's exit codes on the unchanged and changed tree. Be honest if you could not meet a requirement.
"""

def main():
    props = {}
    for l in open('/verif/properties.jsonl'):
        p = json.loads(l); props[p['id']] = p
    for pid in sys.argv[1:]:
        p = props[pid]
        out = f"/tmp/seeds/{pid}"
        os.makedirs(out, exist_ok=True)
        txt = TEMPLATE.format(id=pid, title=p['title'], statement=p['statement'],
                              quant=p['quantifier']['text'], files=", ".join(p['anchors']['files']),
                              wt=f"/tmp/wt/{pid}", out=out)
        open(f"{out}/TASK.md", "w").write(txt)
        print(out + "/TASK.md")

if __name__ == "__main__":
    main()
