#!/usr/bin/env python3
"""tools/record_runs.py <results.txt> : fold mutant run results (lines `name PID patch tier rc=N :: sig…`) into seeded/<name>/meta.json
and print the catch table (markdown).  Development-time tool."""
import json, os, re, sys, glob
for path in sys.argv[1:]:
    for line in open(path):
        m = re.match(r"(\S+) (\S+) (\S+) (\S+) rc=(\d+) :: ?(.*)", line.strip())
        if not m:
            continue
        name, pid, patch, tier, rc, sig = m.groups()
        mp = f"/verif/seeded/{name}/meta.json"
        if not os.path.exists(mp):
            continue
        meta = json.load(open(mp))
        first = re.search(r"sig=(\S+)", sig)
        entry = {"check": f"bin/check {pid} --tier {tier}", "how": "tools/mutant.sh: patch applied on /repo HEAD in a scratch worktree, VERIF_REPO pointed at it, VERIF_SEED=0",
                 "exit": int(rc), "caught": rc == "1", "first_signature": first.group(1) if first else None}
        meta["checks_run"] = [e for e in meta.get("checks_run", []) if e["check"] != entry["check"]] + [entry]
        json.dump(meta, open(mp, "w"), indent=1)
print("| seeded change | property | what it does (short) | needs | caught by | missed by |")
print("|---|---|---|---|---|---|")
for mp in sorted(glob.glob("/verif/seeded/*/meta.json")):
    meta = json.load(open(mp))
    name = os.path.basename(os.path.dirname(mp))
    caught = [e["check"].split()[1] + ("(thorough)" if "thorough" in e["check"] else "") + (f" `{e['first_signature']}`" if e.get("first_signature") else "") for e in meta.get("checks_run", []) if e["caught"]]
    missed = [e["check"].split()[1] for e in meta.get("checks_run", []) if not e["caught"]]
    short = (meta.get("short") or (meta.get("summary") or "")[:110]).replace("|", "/").replace("\n", " ")
    needs = (meta.get("needs_short") or (meta.get("needs_to_manifest") or "")[:110]).replace("|", "/").replace("\n", " ")
    print(f"| {name} | {meta['property']} | {short} | {needs} | {'; '.join(caught) or '—'} | {', '.join(missed) or '—'} |")
