#!/usr/bin/env python3
"""Developer tool (never run by a check): merge the unlisted signatures of the last run of <PID> into known_findings.json
after they have been reviewed as genuine defects of the unchanged tree.  usage: kf_add.py PID [sig-prefix ...]"""
import json, os, sys
V = os.path.dirname(os.path.dirname(os.path.abspath(__file__)))
pid = sys.argv[1]
prefixes = sys.argv[2:]
path = os.path.join(V, "known_findings.json")
data = json.load(open(path)) if os.path.exists(path) else {"findings": []}
have = {(e["property"], e["sig"]) for e in data["findings"]}
new = json.load(open(os.path.join(V, ".work", "sigs", f"{pid}.json")))
n = 0
for e in new:
    if prefixes and not any(e["sig"].startswith(p) for p in prefixes):
        continue
    if (pid, e["sig"]) in have:
        continue
    data["findings"].append({"property": pid, "status": "known", "sig": e["sig"], "what": e["what"]})
    n += 1
data["findings"].sort(key=lambda e: (e["property"], e["sig"]))
json.dump(data, open(path, "w"), indent=1, ensure_ascii=False)
print(f"added {n} findings for {pid}")
