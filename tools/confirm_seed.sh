#!/bin/bash
# usage: tools/confirm_seed.sh <ID> <patchfile> [demo.sh]   -- independent confirmation of a seeded change in the agent's scratch worktree
# 1. unchanged tree: build, demo must exit 0;  2. changed tree: build, demo must exit 1, test suite must pass.
set -u
id=$1; patch=$2; demo=${3:-/tmp/seeds/$id/demo.sh}
wt=/tmp/wt/$id; log=/tmp/seeds/$id/confirm.$(basename $patch).log
export HOME=$wt/.home CARGO_HOME=/root/.cargo RUSTUP_HOME=/root/.rustup PYENV_ROOT=/root/.pyenv CARGO_NET_OFFLINE=true
mkdir -p $HOME
cd $wt || exit 3
git checkout -q -- . || exit 3
{
echo "== unchanged build"; cargo build --offline --features els -j 8 2>&1 | tail -2
bash $demo $wt > $log.demo0 2>&1; d0=$?
echo "demo unchanged rc=$d0"
git apply $patch || { echo "patch does not apply"; exit 4; }
echo "== changed build"; cargo build --offline --features els -j 8 2>&1 | tail -2
bash $demo $wt > $log.demo1 2>&1; d1=$?
echo "demo changed rc=$d1"
echo "== test suite (changed)"
cargo test --workspace --no-fail-fast --offline -j 8 > $log.tests 2>&1; t=$?
grep -E "^test result|FAILED|failed" $log.tests | sort | uniq -c | head -20
if [ $t -ne 0 ]; then
  echo "-- rerun els target alone (timing-flaky under load)"
  for i in 1 2 3; do cargo test -p els --test test --offline -j 8 2>&1 | grep -E "^test result" ; done
fi
echo "tests rc=$t"
git checkout -q -- .
echo "== rebuild unchanged"; cargo build --offline --features els -j 8 2>&1 | tail -1
echo "SUMMARY id=$id patch=$(basename $patch) demo_unchanged=$d0 demo_changed=$d1 tests_rc=$t"
} > $log 2>&1
tail -1 $log
