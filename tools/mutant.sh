#!/bin/bash
# usage: tools/mutant.sh <slot> <patch.diff> <PID> [tier] [seed]
# Applies a seeded change on top of /repo's HEAD in the scratch worktree /tmp/mut/<slot> and runs bin/check PID against it
# (VERIF_REPO/VERIF_WORK point outside /repo and /verif).  Never touches /repo's working tree.
set -u
slot=$1; patch=$2; pid=$3; tier=${4:-quick}; seed=${5:-0}
wt=/tmp/mut/$slot; work=/tmp/mutwork/$slot
mkdir -p /tmp/mut /tmp/mutwork
head=$(git -C /repo rev-parse HEAD)
if [ ! -d $wt ]; then git -C /repo worktree add --detach $wt $head >/dev/null 2>&1 || exit 3; fi
git -C $wt checkout -q --detach $head && git -C $wt checkout -q -- . || exit 3
if ! git -C $wt apply $patch; then echo "PATCH DOES NOT APPLY on current /repo HEAD"; exit 4; fi
VERIF_REPO=$wt VERIF_WORK=$work VERIF_SEED=$seed /verif/bin/check $pid --tier $tier > $work.$pid.$(basename $patch).log 2>&1; rc=$?
git -C $wt checkout -q -- .
echo "mutant slot=$slot pid=$pid tier=$tier rc=$rc"
grep -E '^(VIOLATION|OK|INCONCLUSIVE)|^  sig=' $work.$pid.$(basename $patch).log | head -8
exit $rc
