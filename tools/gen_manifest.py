#!/usr/bin/env python3
"""Regenerate MANIFEST.json from the monitors that exist (mon/cNN.py with LEVEL/RULE/MANIFEST dict)."""
import importlib, json, os, sys
V = os.path.dirname(os.path.dirname(os.path.abspath(__file__)))
sys.path.insert(0, V)
props = [json.loads(l) for l in open(os.path.join(V, "properties.jsonl"))]
NA = {}  # property -> reason, for properties deliberately not claimed
na_path = os.path.join(V, "tools", "not_applicable.json")
if os.path.exists(na_path):
    NA = json.load(open(na_path))
hook_commits = json.load(open(os.path.join(V, "tools", "hook_commits.json")))
checks, not_applicable = [], []
for p in props:
    pid = p["id"]
    modpath = os.path.join(V, "mon", pid.lower() + ".py")
    if pid in NA or not os.path.exists(modpath):
        not_applicable.append({"property_id": pid, "reason": NA.get(pid, "monitor not built yet in this revision of /verif (work in progress; see DESIGN.md section 3)")})
        continue
    m = importlib.import_module("mon." + pid.lower())
    meta = getattr(m, "MANIFEST", {})
    checks.append({
        "property_id": pid,
        "quick_cmd": f"bin/check {pid} --tier quick",
        "thorough_cmd": f"bin/check {pid} --tier thorough",
        "evidence_file": f"/verif/evidence/{pid}.json",
        "replay_cmd_template": f"bin/check {pid} --replay {{path}}",
        "engine": "bin/check",
        "level_claimed": {"category": m.LEVEL, "text": meta.get("text", m.RULE), "design_ref": f"DESIGN.md section 3, {pid}"},
        "level_note": meta.get("note", "trusts CPython's own behaviour and the small reference oracle in the monitor; covers only executions actually driven"),
        "technique": meta.get("technique", "runtime monitoring: oracle over observed executions"),
    })
man = {
    "version": 1,
    "setup_cmd": "bin/setup",
    "hooks": {
        "guard": "verif_hooks (cargo feature of erg_common, forwarded by erg_compiler and the root package; off by default)",
        "enable": "the harness crate depends on the repository crates with features [els, verif_hooks]: cargo build --offline --manifest-path /verif/harness/Cargo.toml (equivalent to cargo build --features els,verif_hooks in /repo)",
        "baseline_off_cmd": "cd /repo && cargo test --workspace --no-fail-fast --offline",
        "source_commits": hook_commits,
        "add_only": True,
    },
    "engines": [{"name": "bin/check", "path": "/verif/bin/check", "serves_properties": [c["property_id"] for c in checks],
                 "kind_free_text": "Python monitors (mon/*.py) driving the real erg binary, the in-process harness vh and CPython 3.7-3.13; oracles over observed executions"}],
    "checks": checks,
    "notes": "Technique family: runtime monitoring. Known findings: /verif/known_findings.json (read-only at run time). VERIF_SEED and VERIF_TIER honoured.",
    "not_applicable": not_applicable,
}
json.dump(man, open(os.path.join(V, "MANIFEST.json"), "w"), indent=1)
print(f"{len(checks)} checks, {len(not_applicable)} not claimed")
