#!/bin/bash
# usage: tools/mutant_batch.sh <slot> "<name>:<patch>:<PID>[:tier]" ...   -- runs each and appends one line per run to /tmp/mutant_results.txt
slot=$1; shift
for spec in "$@"; do
  IFS=: read name patch pid tier <<< "$spec"
  out=$(/verif/tools/mutant.sh $slot $patch $pid ${tier:-quick} 0 2>&1)
  rc=$(echo "$out" | grep -o "rc=[0-9]*" | head -1)
  sig=$(echo "$out" | grep "sig=" | head -2 | cut -c1-200 | tr '\n' ' ')
  echo "$name $pid $(basename $patch) ${tier:-quick} $rc :: $sig" >> /tmp/mutant_results.txt
done
