"""C25 REPL results stay in step with inputs for any history; message framing decodes exactly what was sent."""
import json
import os

from . import common

LEVEL = "exploration"
RULE = ("(a) the real Rust Message/MessageStream (src/dummy.rs compiled into the harness) over an in-memory stream that serves reads "
        "in arbitrary chunk sizes: every message carries a unique id, decoded sequence must equal the sent sequence for every "
        "chunking; (b) the real Python MessageStream class (extracted from repl_server.py with ast) over a fake socket, against a "
        "reference encoder/decoder, full-read and split-read regimes, ASCII and multi-byte payloads; (c) cross-language: Python "
        "send -> Rust recv; (d) DummyVM::eval histories against a live REPL server: reply k must be exactly the output of input "
        "k (unique markers). distinct = distinct (message-size tuple, chunk pattern) / (history shape) cases")
MANIFEST = {
    "text": "History checking with unique ids: framing is exercised under thousands of message-size/chunk-split combinations on "
            "both the Rust client and the Python server implementation; REPL histories check that every reply answers its own input.",
    "technique": "history/trace checker with unique ids over in-memory streams (Rust harness + CPython), live REPL histories",
    "note": "payload limit 65535 bytes per frame is the protocol's; larger payloads are exercised as listed findings",
}
M64 = (1 << 64) - 1


def payload(uid, n):
    v = bytearray(f"{uid}:".encode())
    x = ((uid * 0x9E3779B97F4A7C15) & M64) | 1
    while len(v) < n:
        x ^= (x << 13) & M64
        x ^= x >> 7
        x ^= (x << 17) & M64
        v.append(ord("a") + x % 26)
    return bytes(v[:n])


def fnv(b):
    h = 0xcbf29ce484222325
    for c in b:
        h ^= c
        h = (h * 0x100000001b3) & M64
    return f"{h:016x}"


SIZES = [0, 1, 2, 3, 7, 100, 255, 256, 1023, 4096, 65534, 65535]


def gen_frame_case(rng, uid0):
    k = rng.randint(1, 7)
    msgs = []
    for j in range(k):
        size = rng.choice(SIZES) if rng.random() < 0.6 else rng.randint(0, 5000)
        msgs.append([rng.choice([1, 2, 3, 4, 5, 6]), uid0 + j, size])
    pat = rng.choice(["ones", "small", "mixed", "big", "two"])
    if pat == "ones":
        chunks = [1]
    elif pat == "small":
        chunks = [rng.randint(1, 4) for _ in range(rng.randint(1, 5))]
    elif pat == "mixed":
        chunks = [rng.choice([1, 2, 3, 5, 64, 1000, 65535, 70000]) for _ in range(rng.randint(2, 8))]
    elif pat == "two":
        total = sum(3 + m[2] for m in msgs)
        chunks = [rng.randint(1, max(1, total)), 10 ** 9]
    else:
        chunks = []
    return {"mode": "roundtrip", "msgs": msgs, "chunks": chunks}


def check_recv(rep, case, recv, expected, tag):
    for i, (inst, uid, size) in enumerate(expected):
        if i >= len(recv):
            rep.violation(f"{tag}:missing-message", f"only {len(recv)} of {len(expected)} messages decoded: {case}", case)
            return False
        r = recv[i]
        want = payload(uid, size)
        if "err" in r:
            rep.violation(f"{tag}:recv-error", f"message {i} of {case['msgs']} chunks={case.get('chunks')}: {r['err']}", case)
            return False
        if r["inst"] != inst or r["len"] != size or r["fnv"] != fnv(want):
            rep.violation(f"{tag}:wrong-message", f"message {i}: sent inst={inst} len={size} id={uid}, decoded {r} (chunks={case.get('chunks')})", case)
            return False
    return True


def frames(ctx, rep):
    rng = ctx.rng("frames")
    cases = [gen_frame_case(rng, 1000 * i) for i in range(ctx.n(1500, 20000))]

    def batch(sr, part):
        resp, proc = ctx.vh_lines("frame", part, timeout=900)
        if len(resp) != len(part):
            raise common.Inconclusive(f"vh frame answered {len(resp)}/{len(part)} rc={proc.rc} {proc.serr[-200:]}")
        for c, r in zip(part, resp):
            if "panic" in r:
                sr.violation("rust:panic:" + common._relsrc(r["panic"].split(": ")[0]), f"{r['panic'][:200]} on {c}", c)
                continue
            if check_recv(sr, c, r["recv"], c["msgs"], "rust"):
                sr.ok((tuple(m[2] for m in c["msgs"]), tuple(c["chunks"][:4])),
                      {"sizes": [m[2] for m in c["msgs"]], "chunks": c["chunks"][:6]} if len(c["msgs"]) <= 3 else None)
    common.run_parallel(rep, cases, batch)
    # listed finding: a payload above 65535 bytes
    over = {"mode": "roundtrip", "msgs": [[1, 7, 70000], [1, 8, 5]], "chunks": []}
    resp, _ = ctx.vh_lines("frame", [over], timeout=120)
    if resp and "recv" in resp[0]:
        sub = rep.sub()
        if not check_recv(sub, over, resp[0]["recv"], over["msgs"], "rust"):
            rep.violation("rust:oversize-desync", "a 70000-byte payload is sent whole but announced as 65535 bytes: the next message is "
                          "decoded from the middle of the payload: " + json.dumps(resp[0]["recv"])[:300], over)


def pyside(ctx, rep):
    script = os.path.join(common.VERIF, "mon", "c25_pyside.py")
    server = os.path.join(ctx.repo, "src", "scripts", "repl_server.py")
    versions = ["3.11"] if ctx.quick else ["3.7", "3.9", "3.11"]
    n = ctx.n(250, 4000)
    sends_for_rust = []
    for v in versions:
        p = ctx.run([common.PY_VERSIONS[v], script, server, f"{ctx.seed}:{v}", str(n)], timeout=1800)
        if p.rc != 0:
            raise common.Inconclusive(f"python side failed under {v}: {p.serr[-300:]}")
        doc = json.loads(p.sout)
        for r in doc["results"]:
            case = {"py": v, "dir": r["dir"], "regime": r.get("regime"), "sizes": r.get("sizes"), "seed": f"{ctx.seed}:{v}", "n": n}
            if r["dir"] == "send-oversize":
                if not r["ok"]:
                    rep.violation("py:send-oversize", f"MessageStream.send_msg with a 70000-byte payload: {r['err']}", case)
                continue
            if r["ok"]:
                rep.ok(("py", r["dir"], r["regime"], tuple(r["sizes"])), None)
                if r["dir"] == "send" and r.get("wire_hex") and len(sends_for_rust) < ctx.n(200, 2000):
                    sends_for_rust.append(r)
            elif r["regime"] == "random" and r["dir"] == "recv":
                rep.violation("py:recv-assumes-full-reads", f"Python MessageStream.recv_msg under split reads: {r['err'] or 'wrong message ' + str(r.get('first_bad'))} sizes={r['sizes']}", case)
            else:
                rep.violation(f"py:{r['dir']}-wrong", f"Python MessageStream {r['dir']} (full reads): {r['err'] or 'decoded sequence differs at ' + str(r.get('first_bad'))} sizes={r['sizes']}", case)
    # cross-language: bytes produced by the Python send_msg must be decoded by the Rust recv_msg, under chunking
    rng = ctx.rng("cross")
    reqs = [{"mode": "decode", "wire_hex": r["wire_hex"], "chunks": [rng.randint(1, 7) for _ in range(3)], "n": len(r["msgs"])} for r in sends_for_rust]
    if reqs:
        resp, proc = ctx.vh_lines("frame", reqs, timeout=600)
        for r, q, a in zip(sends_for_rust, reqs, resp):
            want = [(i, d.encode()) for i, d in r["msgs"]]
            got = a.get("recv", [])
            ok = len(got) == len(want) and all("err" not in g and g["inst"] == w[0] and g["len"] == len(w[1]) and g["fnv"] == fnv(w[1]) for g, w in zip(got, want))
            if ok:
                rep.ok(("cross", tuple(len(w[1]) for w in want)), None)
                rep.count("cross_language_ok")
            else:
                rep.violation("cross:py-send-rust-recv", f"frames written by the Python send_msg are not decoded by the Rust recv_msg: {got[:3]} vs sizes {[len(w[1]) for w in want]}", {"wire_hex": q["wire_hex"]})


# ---------------------------------------------------------------- REPL histories
def gen_history(rng, hid):
    n = rng.randint(3, 9)
    inputs, expect = [], []
    nvars = 0
    for k in range(n):
        marker = f"m{hid}x{k}:"
        r = rng.random()
        if r < 0.45:
            pad = rng.choice(["", "hello", "héllo", "日本語", "😀", "a" * rng.randint(1, 400), "q" * 1500])
            inputs.append(f'print! "{marker}{pad}"')
            expect.append(("print", marker + pad))
        elif r < 0.65:
            nvars += 1
            inputs.append(f"v{nvars} = {k} + {hid % 7}")
            expect.append(("empty", ""))
        elif r < 0.85 and nvars:
            j = rng.randint(1, nvars)
            inputs.append(f'print! "{marker}", v{j} * 2')
            expect.append(("prefix", marker))
        else:
            a, b = rng.randint(0, 99), rng.randint(0, 99)
            inputs.append(f"{a} + {b} * 2")
            expect.append(("value", str(a + b * 2)))
    return {"inputs": inputs, "expect": expect, "hid": hid}


def repl(ctx, rep):
    rng = ctx.rng("repl")
    hist = [gen_history(rng, i) for i in range(ctx.n(24, 600))]

    def one(h):
        resp, proc = ctx.vh_lines("repl", [{"inputs": h["inputs"]}], timeout=600)
        return h, resp, proc
    for h, resp, proc in common.pmap(one, hist, workers=8):
        if proc.timed_out:
            rep.inconc("repl history timed out")
            continue
        if not resp or "results" not in resp[0]:
            if resp and "panic" in resp[0]:
                rep.violation("repl:panic:" + common._relsrc(resp[0]["panic"].split(": ")[0]), resp[0]["panic"][:200], h)
            else:
                rep.violation("repl:client-died", f"REPL client process ended (rc={proc.rc}) during history {h['inputs']}: {proc.serr[-200:]}", h)
            continue
        res = resp[0]["results"]
        bad = None
        for k, ((kind, want), r) in enumerate(zip(h["expect"], res)):
            if "err" in r:
                bad = (k, f"compile error {r['err'][:100]}")
                break
            got = strip_ansi(r["ok"])
            if kind == "print" and got != want:
                bad = (k, f"reply {got[:80]!r}, expected exactly {want[:80]!r}")
            elif kind == "empty" and got.strip() not in ("", "None"):
                bad = (k, f"reply {got[:80]!r} to a binding, expected nothing")
            elif kind == "prefix" and not got.startswith(want):
                bad = (k, f"reply {got[:80]!r}, expected to start with {want!r}")
            elif kind == "value" and got.strip() != want:
                bad = (k, f"reply {got[:80]!r}, expected {want!r}")
            if bad:
                break
        if bad is None and len(res) != len(h["inputs"]):
            bad = (len(res), "missing replies")
        if bad:
            rep.violation("repl:reply-out-of-step", f"history {h['hid']} input {bad[0]} ({h['inputs'][bad[0]][:60]!r}): {bad[1]}", h)
        else:
            rep.ok(("repl", tuple(k for k, _ in h["expect"])), {"inputs": [i[:60] for i in h["inputs"]]} if len(h["inputs"]) <= 4 else None)
            rep.count("repl_inputs_checked", len(res))
    # listed finding: an input whose compiled script does not fit one frame
    big = {"inputs": ['print! "big:' + "z" * 30000 + '"', 'print! "after:1"', "1 + 1"], "hid": -1}
    resp, proc = ctx.vh_lines("repl", [{"inputs": big["inputs"]}], timeout=300)
    ok = bool(resp) and "results" in resp[0] and len(resp[0]["results"]) == 3 and \
        strip_ansi(resp[0]["results"][1].get("ok", "")) == "after:1" and strip_ansi(resp[0]["results"][2].get("ok", "")).strip() == "2"
    if not ok:
        rep.violation("repl:oversize-input-desync", "after an input whose compiled script exceeds 65535 bytes (a 30000-character string "
                      f"literal) the following replies are lost/out of step or the client exits: rc={proc.rc} {str(resp)[:200]}", big)


def strip_ansi(s):
    import re
    return re.sub(r"\x1b\[[0-9;]*m", "", s)


def run(ctx, rep):
    frames(ctx, rep)
    pyside(ctx, rep)
    repl(ctx, rep)
    rep.min_evaluations = 500


def replay(ctx, rep, case):
    if case.get("mode") == "roundtrip":
        resp, _ = ctx.vh_lines("frame", [case], timeout=120)
        check_recv(rep, case, resp[0].get("recv", []), case["msgs"], "rust") and rep.ok(("replay",))
    elif "inputs" in case:
        resp, proc = ctx.vh_lines("repl", [{"inputs": case["inputs"]}], timeout=600)
        print(json.dumps(resp)[:2000])
        rep.ok(("replay",))
    else:
        pyside(ctx, rep)
