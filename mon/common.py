"""Shared machinery of the /verif runtime monitors: build, environment, process helpers, verdict bookkeeping,
known-finding classification, evidence and replay files.  Python 3.11, stdlib only."""
import concurrent.futures as cf
import fcntl
import hashlib
import json
import os
import random
import shutil
import subprocess
import sys
import time

VERIF = os.path.dirname(os.path.dirname(os.path.abspath(__file__)))
PY_VERSIONS = {
    "3.7": "/root/.pyenv/versions/3.7.16/bin/python3",
    "3.8": "/root/.pyenv/versions/3.8.18/bin/python3",
    "3.9": "/root/.pyenv/versions/3.9.18/bin/python3",
    "3.10": "/root/.pyenv/versions/3.10.13/bin/python3",
    "3.11": "/root/.pyenv/versions/3.11.7/bin/python3",
    "3.12": "/root/.pyenv/versions/3.12.1/bin/python3",
    "3.13": "/root/.pyenv/versions/3.13.0/bin/python3",
}
DEFAULT_PY = PY_VERSIONS["3.11"]
NCPU = int(os.environ.get("VERIF_JOBS", "0")) or (os.cpu_count() or 8)


class Inconclusive(Exception):
    """The run could not produce a verdict (build failure, harness failure, too few cases)."""


def base_env():
    env = dict(os.environ)
    d = os.path.dirname(DEFAULT_PY)
    if os.path.isdir(d):
        env["PATH"] = d + ":" + env.get("PATH", "")
    env["CARGO_NET_OFFLINE"] = "true"
    env.pop("ERG_VERIF_TRACE", None)
    env.pop("ERG_VERIF_SCHED", None)
    return env


class Ctx:
    def __init__(self, pid, tier, seed):
        self.pid = pid
        self.tier = tier
        self.seed = seed
        self.repo = os.path.abspath(os.environ.get("VERIF_REPO", "/repo"))
        default_work = os.path.join(VERIF, ".work")
        if self.repo != "/repo":
            default_work = os.path.join(VERIF, ".work", "alt_" + hashlib.sha1(self.repo.encode()).hexdigest()[:10])
        self.work = os.path.abspath(os.environ.get("VERIF_WORK", default_work))
        self.target = os.path.join(self.work, "target")
        self.erg = os.path.join(self.target, "debug", "erg")
        self.vh = os.path.join(self.target, "debug", "vh")
        self.erg_home = os.path.join(self.work, "erg_home")
        self.env = base_env()
        self.env["ERG_PATH"] = self.erg_home
        self.scratch = None
        self.t0 = time.time()
        # evidence/replays of runs against another tree (mutant testing) must not clobber /verif's own
        self.out_dir = VERIF if self.repo == "/repo" else self.work

    def rng(self, salt=""):
        return random.Random(f"{self.pid}:{self.seed}:{salt}")

    @property
    def quick(self):
        return self.tier == "quick"

    def n(self, quick, thorough):
        return quick if self.quick else thorough

    # ------------------------------------------------------------------ build
    def ensure_built(self, need_vh=True):
        os.makedirs(self.work, exist_ok=True)
        lock = open(os.path.join(self.work, "build.lock"), "w")
        fcntl.flock(lock, fcntl.LOCK_EX)
        try:
            env = dict(self.env)
            env["CARGO_TARGET_DIR"] = self.target
            env["VERIF_REPO"] = self.repo
            env.pop("ERG_PATH", None)
            log = os.path.join(self.work, "build.log")
            with open(log, "w") as lf:
                # one dependency graph: `erg` (the repository's src/main.rs) and `vh` are both bins of the harness crate
                hdir = self._harness_dir()
                r = subprocess.run(["cargo", "build", "--offline", "--manifest-path", os.path.join(hdir, "Cargo.toml")],
                                   env=env, stdout=lf, stderr=subprocess.STDOUT)
                if r.returncode != 0:
                    raise Inconclusive(f"cargo build of {self.repo} + harness failed (see {log})")
            # runtime library: always the working tree's copy
            os.makedirs(self.erg_home, exist_ok=True)
            r = subprocess.run(["rsync", "-a", "--delete", os.path.join(self.repo, "crates/erg_compiler/lib"),
                                self.erg_home + "/"], capture_output=True)
            if r.returncode != 0:
                raise Inconclusive("rsync of runtime library failed: " + r.stderr.decode(errors="replace"))
            os.makedirs(os.path.join(self.erg_home, "lib", "pkgs"), exist_ok=True)
        finally:
            fcntl.flock(lock, fcntl.LOCK_UN)
            lock.close()

    def _harness_dir(self):
        src = os.path.join(VERIF, "harness")
        if self.repo == "/repo":
            shutil.copyfile(os.path.join(self.repo, "Cargo.lock"), os.path.join(src, "Cargo.lock"))
            return src
        dst = os.path.join(self.work, "harness_src")
        os.makedirs(os.path.join(dst, "src"), exist_ok=True)
        for fn in os.listdir(os.path.join(src, "src")):
            _copy_if_changed(os.path.join(src, "src", fn), os.path.join(dst, "src", fn))
        toml = open(os.path.join(src, "Cargo.toml")).read().replace('"/repo', '"' + self.repo)
        _write_if_changed(os.path.join(dst, "Cargo.toml"), toml)
        shutil.copyfile(os.path.join(self.repo, "Cargo.lock"), os.path.join(dst, "Cargo.lock"))
        return dst

    # ------------------------------------------------------------------ scratch
    def new_scratch(self):
        d = os.path.join(self.work, "scratch", f"{self.pid}_{os.getpid()}")
        shutil.rmtree(d, ignore_errors=True)
        os.makedirs(d)
        self.scratch = d
        return d

    def cleanup(self):
        if self.scratch:
            shutil.rmtree(self.scratch, ignore_errors=True)

    # ------------------------------------------------------------------ processes
    def run(self, argv, cwd=None, input=None, timeout=120, env_extra=None):
        """Returns Proc(rc, out, err, timed_out). rc < 0 means killed by signal -rc."""
        env = self.env
        if env_extra:
            env = dict(env)
            env.update(env_extra)
        t0 = time.time()
        try:
            p = subprocess.run(argv, cwd=cwd, input=input, capture_output=True, timeout=timeout, env=env)
            return Proc(p.returncode, p.stdout, p.stderr, False, time.time() - t0)
        except subprocess.TimeoutExpired as e:
            return Proc(None, e.stdout or b"", e.stderr or b"", True, time.time() - t0)

    def erg_cmd(self, *args):
        return [self.erg, *args]

    def vh_lines(self, sub, requests, timeout=600, extra_args=()):
        """Run `vh <sub>` over a list of request dicts; returns list of responses (None for missing)."""
        data = "\n".join(json.dumps(r) for r in requests) + "\n"
        p = self.run([self.vh, sub, *extra_args], input=data.encode(), timeout=timeout)
        out = []
        for line in p.out.decode(errors="replace").splitlines():
            line = line.strip()
            if not line.startswith("{"):
                continue
            try:
                out.append(json.loads(line))
            except json.JSONDecodeError:
                out.append({"harness_error": "bad json line"})
        return out, p


class Proc:
    __slots__ = ("rc", "out", "err", "timed_out", "wall")

    def __init__(self, rc, out, err, timed_out, wall):
        self.rc, self.out, self.err, self.timed_out, self.wall = rc, out, err, timed_out, wall

    @property
    def sout(self):
        return self.out.decode(errors="replace")

    @property
    def serr(self):
        return self.err.decode(errors="replace")

    @property
    def signaled(self):
        return self.rc is not None and self.rc < 0


def _copy_if_changed(a, b):
    da = open(a, "rb").read()
    if os.path.exists(b) and open(b, "rb").read() == da:
        return
    open(b, "wb").write(da)


def _write_if_changed(path, text):
    if os.path.exists(path) and open(path).read() == text:
        return
    open(path, "w").write(text)


def pmap(fn, items, workers=None):
    """Ordered parallel map with threads (the work happens in subprocesses)."""
    workers = workers or NCPU
    with cf.ThreadPoolExecutor(max_workers=workers) as ex:
        return list(ex.map(fn, items))


def chunks(seq, n):
    seq = list(seq)
    for i in range(0, len(seq), n):
        yield seq[i:i + n]


def sha(obj):
    return hashlib.sha1(json.dumps(obj, sort_keys=True, default=str).encode()).hexdigest()[:16]


PANIC_MARKERS = ("panicked at", "Thread panicked", "overflowed its stack", "stack overflow",
                 "RUST_BACKTRACE", "fatal runtime error")
ICE_MARKERS = ("this is a bug of the Erg compiler", "This may be a bug of Erg compiler",
               "this is a bug of Erg", "bug of the Erg")


def crash_signature(p: Proc):
    """None if the process ended normally; otherwise a short stable signature of the crash."""
    import re
    text = p.serr + p.sout
    if p.signaled:
        m = re.search(r"panicked at ([^\s:]+):(\d+)", text)
        if "overflowed its stack" in text:
            return f"signal{-p.rc}:stack-overflow"
        return f"signal{-p.rc}" + (f":{os.path.basename(m.group(1))}:{m.group(2)}" if m else "")
    m = re.search(r"panicked at ([^\s:]+):(\d+)", text)
    if m:
        return f"panic:{_relsrc(m.group(1))}:{m.group(2)}"
    if "overflowed its stack" in text:
        return "stack-overflow"
    if "Thread panicked" in text:
        return "thread-panicked"
    return None


def _relsrc(path):
    for marker in ("/crates/", "/src/"):
        i = path.find(marker)
        if i >= 0:
            return path[i + 1:]
    return os.path.basename(path)


def ice_signature(p: Proc):
    text = p.serr + p.sout
    for m in ICE_MARKERS:
        if m in text:
            return "ice:" + m
    return None


# ---------------------------------------------------------------------- report
class Report:
    """Collects what a run observed.  A check module only records; classification happens in finish()."""

    def __init__(self, ctx: Ctx, level: str, rule: str):
        self.ctx = ctx
        self.level = level
        self.rule = rule
        self.evaluations = 0
        self.distinct = set()
        self.samples = []
        self.max_samples = 6
        self.violations = []      # (sig, what, case)
        self.inconclusive = 0
        self.inconclusive_notes = []
        self.declined = 0
        self.extra = {}
        self.assumptions = []
        self.min_evaluations = 1
        self.programs = None
        self.disagreements_checked = None
        self.exhaustive = False

    def ok(self, distinct_key=None, sample=None):
        self.evaluations += 1
        if distinct_key is not None:
            self.distinct.add(distinct_key if isinstance(distinct_key, (str, int, tuple)) else sha(distinct_key))
        if sample is not None and len(self.samples) < self.max_samples:
            self.samples.append(sample)

    def sample(self, s):
        if len(self.samples) < self.max_samples:
            self.samples.append(s)

    def violation(self, sig, what, case):
        """sig: stable signature used to match known findings; what: human text; case: JSON-able replay data."""
        self.evaluations += 1
        self.violations.append((sig, what, case))

    def inconc(self, note):
        self.inconclusive += 1
        if len(self.inconclusive_notes) < 10:
            self.inconclusive_notes.append(str(note)[:300])

    def count(self, key, n=1):
        self.extra[key] = self.extra.get(key, 0) + n

    def sub(self):
        """A fresh report for a worker; merge() it back."""
        r = Report(self.ctx, self.level, self.rule)
        r.max_samples = self.max_samples
        return r

    def merge(self, sr):
        self.evaluations += sr.evaluations - len(sr.violations)
        self.distinct |= sr.distinct
        for s in sr.samples:
            self.sample(s)
        for v in sr.violations:
            self.violation(*v)
        self.inconclusive += sr.inconclusive
        for n in sr.inconclusive_notes:
            if len(self.inconclusive_notes) < 10:
                self.inconclusive_notes.append(n)
        self.declined += sr.declined
        for k, v in sr.extra.items():
            if isinstance(v, (int, float)) and not isinstance(v, bool):
                self.extra[k] = self.extra.get(k, 0) + v
            else:
                self.extra.setdefault(k, v)


def run_parallel(rep, cases, batch_fn, nparts=None):
    """Split cases into parts, run batch_fn(sub_report, part) on threads, merge."""
    cases = list(cases)
    if not cases:
        return
    nparts = nparts or NCPU * 2
    size = max(1, (len(cases) + nparts - 1) // nparts)
    parts = list(chunks(cases, size))

    def work(part):
        sr = rep.sub()
        batch_fn(sr, part)
        return sr
    for sr in pmap(work, parts):
        rep.merge(sr)


def load_known(pid):
    path = os.path.join(VERIF, "known_findings.json")
    if not os.path.exists(path):
        return []
    data = json.load(open(path))
    return [e for e in data.get("findings", []) if e.get("property") == pid]


def finish(ctx: Ctx, rep: Report, replay_mode=False):
    """Classify, write evidence + replays, print verdict lines, return exit code."""
    known = [e for e in load_known(ctx.pid) if e.get("status") == "known"]
    known_by_sig = {e["sig"]: e for e in known}
    new_violations = []
    reproduced = {}
    for sig, what, case in rep.violations:
        if sig in known_by_sig:
            reproduced.setdefault(sig, (what, 0))
            reproduced[sig] = (reproduced[sig][0], reproduced[sig][1] + 1)
        else:
            new_violations.append((sig, what, case))
    for sig, (what, n) in sorted(reproduced.items()):
        print(f"KNOWN-FINDING: property={ctx.pid} {sig} :: {known_by_sig[sig].get('what', what)} (x{n})")
    rc = 0
    replay_paths = []
    seen = set()
    # developer aid only (never read back by any check): every unlisted signature of this run
    try:
        os.makedirs(os.path.join(ctx.work, "sigs"), exist_ok=True)
        uniq = {}
        for sig, what, case in new_violations:
            uniq.setdefault(sig, what)
        with open(os.path.join(ctx.work, "sigs", f"{ctx.pid}.json"), "w") as f:
            json.dump([{"sig": k, "what": v} for k, v in uniq.items()], f, indent=1)
    except OSError:
        pass
    for sig, what, case in new_violations:
        if sig in seen and len(replay_paths) >= 5:
            continue
        seen.add(sig)
        rdir = os.path.join(ctx.out_dir, "replays", ctx.pid)
        os.makedirs(rdir, exist_ok=True)
        path = os.path.join(rdir, sha([sig, case]) + ".json")
        with open(path, "w") as f:
            json.dump({"property": ctx.pid, "sig": sig, "what": what, "case": case, "seed": ctx.seed, "tier": ctx.tier},
                      f, indent=1, default=str)
        replay_paths.append(path)
        if len(replay_paths) <= 20:
            print(f"VIOLATION property={ctx.pid} replay={path}")
            print(f"  sig={sig} :: {what[:400]}")
        rc = 1
    inconclusive_run = False
    if rc == 0 and not replay_mode and rep.evaluations < rep.min_evaluations:
        print(f"INCONCLUSIVE property={ctx.pid}: only {rep.evaluations} conclusive evaluations (< {rep.min_evaluations}); "
              f"inconclusive={rep.inconclusive} notes={rep.inconclusive_notes[:3]}")
        inconclusive_run = True
        rc = 2
    if not replay_mode:
        write_evidence(ctx, rep, len(new_violations), sorted(reproduced), inconclusive_run)
    if rc == 0:
        print(f"OK property={ctx.pid} tier={ctx.tier} seed={ctx.seed} evaluations={rep.evaluations} "
              f"distinct={len(rep.distinct)} inconclusive={rep.inconclusive} declined={rep.declined} "
              f"known_reproduced={len(reproduced)} wall={time.time() - ctx.t0:.1f}s")
    return rc


def write_evidence(ctx, rep, n_viol, reproduced_sigs, inconclusive_run):
    cov = {
        "evaluations": rep.evaluations,
        "distinct_nontrivial": len(rep.distinct),
        "rule": rep.rule,
        "samples": rep.samples[: rep.max_samples] or ["<no sample recorded>"],
        "declined": rep.declined,
        "inconclusive": rep.inconclusive,
        "inconclusive_notes": rep.inconclusive_notes,
        "known_findings_reproduced": reproduced_sigs,
        "exhaustive": rep.exhaustive,
    }
    if rep.level == "translation_validation":
        cov["programs"] = rep.programs if rep.programs is not None else rep.evaluations
        cov["disagreements_checked"] = rep.disagreements_checked if rep.disagreements_checked is not None else n_viol
    cov.update(rep.extra)
    ev = {
        "property_id": ctx.pid,
        "tier": ctx.tier,
        "seed": ctx.seed,
        "level": rep.level,
        "coverage": cov,
        "assumptions": rep.assumptions,
        "wall_s": round(time.time() - ctx.t0, 2),
        "violations": n_viol,
        "verdict": "inconclusive" if inconclusive_run else ("violated" if n_viol else "held_on_observed"),
        "repo": ctx.repo,
    }
    os.makedirs(os.path.join(ctx.out_dir, "evidence"), exist_ok=True)
    path = os.path.join(ctx.out_dir, "evidence", f"{ctx.pid}.json")
    tmp = path + f".tmp{os.getpid()}"
    with open(tmp, "w") as f:
        json.dump(ev, f, indent=1, default=str)
    os.replace(tmp, path)
