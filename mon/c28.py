"""C28 The language server's document copy matches the client's (history checker against a reference text buffer)."""
import os

from . import common

LEVEL = "exploration"
RULE = ("random edit histories (didOpen + 5..30 didChange notifications of 1..3 ranged changes each: insertions, deletions, "
        "replacements, multi-line ranges, positions at and past end of line, at end of text, occasional full-text changes) over "
        "documents containing ASCII, BMP and astral characters, sent to the real server through els::Server::bind_fake_client; "
        "after EVERY notification the server's copy (FileCache::get_entire_code and VFS.read) is compared with a 25-line reference "
        "buffer implementing the LSP rules (UTF-16 columns, past-EOL = EOL). distinct = distinct (edit-kind, character-class) "
        "combinations reached")
MANIFEST = {
    "text": "Each history is replayed against a reference text buffer that implements the LSP position rules; the server's copy "
            "is read back after every single notification, and a panic or error of the server is a violation as well.",
    "technique": "history checker against an executable reference model (in-process language server via FakeClient)",
    "note": "positions are always on character boundaries and on existing lines; one server per history",
}

WORDS = ["x", "y1", "foo", "= ", "1", "42", " ", "  ", "+ ", "print! ", '"s"', "# c", "é", "ß", "日本", "語", "😀", "𝒳", "a😀b", "(", ")", ", "]


def u16len(s):
    return sum(2 if ord(c) > 0xFFFF else 1 for c in s)


def pos_to_index(text, line, char):
    lines = text.split("\n")
    if line >= len(lines):
        return len(text)
    idx = sum(len(l) + 1 for l in lines[:line])
    units = 0
    for c in lines[line]:
        if units >= char:
            break
        units += 2 if ord(c) > 0xFFFF else 1
        idx += 1
    return idx


def apply_change(text, ch):
    if ch["range"] is None:
        return ch["text"]
    sl, sc, el, ec = ch["range"]
    a, b = pos_to_index(text, sl, sc), pos_to_index(text, el, ec)
    return text[:a] + ch["text"] + text[b:]


def gen_text(rng, nlines):
    lines = []
    for _ in range(nlines):
        lines.append("".join(rng.choice(WORDS) for _ in range(rng.randint(0, 6))))
    return "\n".join(lines) + ("\n" if rng.random() < 0.7 else "")


def rand_pos(rng, text, allow_past_eol):
    lines = text.split("\n")
    ln = rng.randrange(len(lines))
    l = lines[ln]
    k = rng.randint(0, len(l))
    col = u16len(l[:k])
    past = False
    if allow_past_eol and k == len(l) and rng.random() < 0.5:
        col += rng.randint(1, 40)
        past = True
    return ln, col, past


def gen_history(rng, hid):
    text = gen_text(rng, rng.randint(1, 6))
    cur = text
    notes, feats = [], set()
    for _ in range(rng.randint(5, 30)):
        changes = []
        for _ in range(rng.choice([1, 1, 1, 2, 3])):
            r = rng.random()
            if r < 0.04:
                ch = {"range": None, "text": gen_text(rng, rng.randint(1, 4))}
                feats.add("full-text")
            else:
                l1, c1, p1 = rand_pos(rng, cur, True)
                if r < 0.45:
                    l2, c2, p2 = l1, c1, p1
                    kind = "insert"
                else:
                    l2, c2, p2 = rand_pos(rng, cur, True)
                    if (l2, c2) < (l1, c1):
                        (l1, c1, p1), (l2, c2, p2) = (l2, c2, p2), (l1, c1, p1)
                    kind = "delete" if r < 0.7 else "replace"
                new = "" if kind == "delete" else "".join(rng.choice(WORDS + ["\n"]) for _ in range(rng.randint(1, 4)))
                ch = {"range": [l1, c1, l2, c2], "text": new}
                feats.add(kind)
                if p1 or p2:
                    feats.add("past-eol")
                if l1 != l2:
                    feats.add("multi-line")
                if pos_to_index(cur, l2, c2) == len(cur):
                    feats.add("at-eof")
                if any(ord(c) > 0xFFFF for c in cur.split("\n")[l1][:40]) or any(ord(c) > 0xFFFF for c in new):
                    feats.add("astral")
                elif any(ord(c) > 0x7F for c in cur.split("\n")[l1][:40]) or any(ord(c) > 0x7F for c in new):
                    feats.add("bmp")
            cur = apply_change(cur, ch)
            changes.append(ch)
        if len(changes) > 1:
            feats.add("multi-change")
        notes.append({"changes": changes})
    return {"open_text": text, "notifications": notes, "hid": hid, "feats": sorted(feats)}


def run_history(ctx, h):
    d = os.path.join(ctx.scratch, f"doc{h['hid']}")
    os.makedirs(d, exist_ok=True)
    req = {"path": os.path.join(d, "doc.er"), "open_text": h["open_text"], "notifications": h["notifications"]}
    resp, proc = ctx.vh_lines("els-sync", [req], timeout=600)
    return h, resp, proc


def judge(rep, h, resp, proc):
    case = {"open_text": h["open_text"], "notifications": h["notifications"], "hid": h["hid"]}
    if proc.timed_out:
        rep.inconc("els-sync history timed out (600 s)")
        return
    if not resp or "steps" not in resp[0]:
        crash = common.crash_signature(proc)
        if crash:
            rep.violation("server-died:" + crash, f"language server process died: {proc.serr[-300:]}", case)
        else:
            rep.inconc(f"harness: {str(resp)[:200]} rc={proc.rc} {proc.serr[-200:]}")
        return
    steps = resp[0]["steps"]
    cur = h["open_text"]
    expected = [cur]
    for n in h["notifications"]:
        for ch in n["changes"]:
            cur = apply_change(cur, ch)
        expected.append(cur)
    for k, st in enumerate(steps):
        what_step = "didOpen" if k == 0 else f"notification {k} {h['notifications'][k - 1]['changes']}"
        sub = {"open_text": h["open_text"], "notifications": h["notifications"][:k], "hid": h["hid"]}
        if "panic" in st:
            rep.violation("panic:" + common._relsrc(st["panic"].split(": ")[0]), f"server panicked on {what_step}: {st['panic'][:200]}", sub)
            return
        if "error" in st:
            rep.violation("server-error", f"server returned an error on {what_step}: {st['error'][:200]}", sub)
            return
        if st["cache"] != expected[k] or st["vfs"] != expected[k]:
            which = "cache" if st["cache"] != expected[k] else "vfs"
            kinds = change_kinds(h, k)
            rep.violation("copy-differs:" + kinds, f"after {what_step} the server's {which} copy is {st[which]!r}, the client's is {expected[k]!r}", sub)
            return
    if len(steps) != len(expected):
        rep.violation("missing-steps", f"{len(steps)} of {len(expected)} steps answered", case)
        return
    rep.ok(tuple(h["feats"]), {"open_text": h["open_text"][:80], "first_changes": h["notifications"][0]["changes"], "features": h["feats"]}
           if len(h["open_text"]) < 80 else None)
    rep.count("notifications_checked", len(h["notifications"]))
    for f in h["feats"]:
        rep.count("hist_with_" + f)


def change_kinds(h, k):
    if k == 0:
        return "open"
    ks = set()
    for ch in h["notifications"][k - 1]["changes"]:
        if ch["range"] is None:
            ks.add("full-text")
        elif ch["range"][:2] == ch["range"][2:]:
            ks.add("insert")
        elif ch["text"] == "":
            ks.add("delete")
        else:
            ks.add("replace")
    return "+".join(sorted(ks))


def run(ctx, rep):
    rng = ctx.rng()
    hist = [gen_history(rng, i) for i in range(ctx.n(160, 2000))]
    # the empty change list (a notification that changes nothing) must not disturb the server either
    hist.append({"open_text": "x = 1\n", "notifications": [{"changes": []}, {"changes": [{"range": [0, 0, 0, 0], "text": "y"}]}], "hid": 10 ** 6, "feats": ["empty-change-list"]})
    for h, resp, proc in common.pmap(lambda h: run_history(ctx, h), hist):
        judge(rep, h, resp, proc)
    rep.min_evaluations = 50


def replay(ctx, rep, case):
    case = dict(case)
    case.setdefault("feats", [])
    h, resp, proc = run_history(ctx, case)
    judge(rep, h, resp, proc)
