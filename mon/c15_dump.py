"""Runs under a target CPython: loads a .pyc written by erg and dumps every constant of every code object (recursively)."""
import json, marshal, sys, types, math

def walk(code, out, names):
    names.extend(code.co_names)
    names.extend(code.co_varnames)
    for c in code.co_consts:
        if isinstance(c, types.CodeType):
            walk(c, out, names)
        elif isinstance(c, tuple):
            out.append(["tuple", repr(c)])
            for x in c:
                if not isinstance(x, (types.CodeType, tuple)):
                    out.append(entry(x))
        else:
            out.append(entry(c))

def entry(c):
    if isinstance(c, float):
        return ["float", c.hex() if not math.isnan(c) else "nan"]
    if isinstance(c, str):
        return ["str", c.encode("utf-8", "surrogatepass").hex()]
    if isinstance(c, bool):
        return ["bool", repr(c)]
    if isinstance(c, int):
        return ["int", str(c)]
    return [type(c).__name__, repr(c)]

res = {}
for path in sys.argv[1:]:
    try:
        data = open(path, "rb").read()
        code = marshal.loads(data[16:])
        out, names = [], []
        walk(code, out, names)
        res[path] = {"consts": out, "names": names}
    except Exception as e:
        res[path] = {"error": type(e).__name__ + ": " + str(e)[:100]}
print(json.dumps(res))
