"""C23 A moved mutable value cannot be used again."""
import random

from . import common, errs

LEVEL = "exploration"
RULE = ("generated straight-line histories over 2-4 mutable list variables in module, procedure and function scopes: moves (rebinding, "
        "placing in a list/tuple, passing for a `List!(Int, _)` parameter) and non-moving passes (ref!, ref, immutable and generic "
        "parameters), followed or not by a later use of a moved variable (print argument, len operand, string interpolation, argument of "
        "a non-moving call, repeated move); a 12-line reference ownership model (moved-set per history) says whether a MoveError is "
        "due; the real front end's diagnostics (`vh errors`) must contain a MoveError naming the variable exactly in that case. "
        "distinct = distinct (scope, move kind, use kind) triples and distinct clean histories")
MANIFEST = {
    "text": "History checking against a tiny reference ownership model: both directions are judged (use after move must be rejected, "
            "histories without such a use must not get a MoveError).",
    "technique": "history checker against an executable reference model of ownership (in-process front end diagnostics)",
    "note": "uses as method receiver and as subscripted object are exercised as listed findings (the checker does not visit them)",
}
PRELUDE = ('mv_!(x: List!(Int, _)) =\n    print! x\n'
           'rf_!(ref! x: List!(Int, _)) =\n    print! x\n'
           'rr_!(ref x: List!(Int, _)) =\n    print! x\n'
           'im_(x: List(Int, _)) = len(x)\n'
           'gen_|T|(x: T): T = x\n'
           'dfl_!(n: Int, buf: List!(Int, _) := ![0]) =\n    print! n, buf\n'
           'dfi_!(dst: List!(Int, _), extra: List(Int, _) := [0]) =\n    print! dst, extra\n')


def gen_history(rng, hid, want_violation, scope):
    nv = rng.randint(2, 4)
    names = [f"m{hid}x{i}" for i in range(nv)]
    lines = [f"{n} = ![{i}, {i + 1}]" for i, n in enumerate(names)]
    moved = {}
    k = 0
    pure = scope == "func"
    move_kinds = ["bind", "list", "tuple"] + ([] if pure else ["mv-param", "mv-default-param"])
    nonmove = ["im", "gen", "len"] + ([] if pure else ["ref!", "ref", "print", "interp", "immutable-default-param"])
    info = {"move": None, "use": None}
    for _ in range(rng.randint(2, 7)):
        live = [n for n in names if n not in moved]
        if not live:
            break
        v = rng.choice(live)
        k += 1
        if rng.random() < 0.45:
            mk = rng.choice(move_kinds)
            if mk == "bind":
                lines.append(f"t{hid}_{k} = {v}")
            elif mk == "list":
                lines.append(f"t{hid}_{k} = [{v}]")
            elif mk == "tuple":
                lines.append(f"t{hid}_{k} = ({v}, 1)")
            elif mk == "mv-default-param":
                lines.append(f"dfl_! 2, {v}")       # positional argument for a parameter that has a default
            else:
                lines.append(f"mv_! {v}")
            moved[v] = mk
        else:
            lines.append(use_line(rng.choice(nonmove), v, hid, k))
    if want_violation:
        if not moved:
            v = names[0]
            k += 1
            mk = rng.choice(move_kinds)
            lines.append({"bind": f"t{hid}_{k} = {v}", "list": f"t{hid}_{k} = [{v}]", "tuple": f"t{hid}_{k} = ({v}, 1)", "mv-param": f"mv_! {v}", "mv-default-param": f"dfl_! 2, {v}"}[mk])
            moved[v] = mk
        v = rng.choice(sorted(moved))
        uk = rng.choice(nonmove + move_kinds)
        k += 1
        if rng.random() < 0.3:
            # an inner subroutine whose parameter/local merely has the same NAME as the moved variable changes nothing
            lines.append(rng.choice([f"sh{hid}_{k}({v}: Int) = 0", f"sh{hid}_{k}() =\n    {v} = 1\n    {v}"]))
            info_shadow = True
        if uk in move_kinds:
            lines.append({"bind": f"t{hid}_{k} = {v}", "list": f"t{hid}_{k} = [{v}]", "tuple": f"t{hid}_{k} = ({v}, 1)", "mv-param": f"mv_! {v}", "mv-default-param": f"dfl_! 2, {v}"}[uk])
        else:
            lines.append(use_line(uk, v, hid, k))
        info = {"move": moved[v], "use": uk, "var": v}
    body = "\n".join(lines)
    if scope == "module":
        src = PRELUDE + body + "\n"
    elif scope == "proc":
        src = PRELUDE + f"p{hid}_!() =\n" + "\n".join("    " + l for l in lines) + "\n    0\n" + f"print! p{hid}_!()\n"
    else:
        src = PRELUDE + f"f{hid}_() =\n" + "\n".join("    " + l for l in lines) + "\n    0\n" + f"print! f{hid}_()\n"
    return {"src": src, "scope": scope, "violation": want_violation, **info, "hid": hid}


def use_line(kind, v, hid, k):
    return {"im": f"u{hid}_{k} = im_({v})", "gen": f"u{hid}_{k} = gen_({v})", "len": f"u{hid}_{k} = len({v}) + 1",
            "immutable-default-param": f"dfi_! ![9], {v}",
            "ref!": f"rf_! {v}", "ref": f"rr_! {v}", "print": f"print! {v}", "interp": f'u{hid}_{k} = "v=\\{{{v}}}"'}[kind]


KNOWN_CASES = [
    ("known:moved-variable-as-method-receiver", PRELUDE + "a = ![1]\nb = a\na.push! 2\nprint! b\n"),
    ("known:moved-variable-subscripted", PRELUDE + "a = ![1]\nb = a\nprint! a[0]\nprint! b\n"),
]


def run(ctx, rep):
    rng = ctx.rng()
    hist = []
    for i in range(ctx.n(700, 10000)):
        hist.append(gen_history(rng, i, rng.random() < 0.5, rng.choice(["module", "module", "proc", "func"])))
    parts = list(common.chunks(hist, max(1, len(hist) // (common.NCPU * 2))))
    for part, res in zip(parts, common.pmap(lambda p: errs.errors_batch(ctx, [h["src"] for h in p]), parts)):
        for h, r in zip(part, res):
            judge(rep, h, r)
    for sig, src in KNOWN_CASES:
        r = errs.errors_batch(ctx, [src])[0]
        if "MoveError" not in errs.kinds(r):
            rep.violation(sig, f"use of a moved variable accepted (errors {errs.kinds(r)}):\n{src[len(PRELUDE):]}", {"src": src, "known": True})
    rep.min_evaluations = 150


def judge(rep, h, r):
    case = {"src": h["src"], "scope": h["scope"], "violation": h["violation"], "move": h.get("move"), "use": h.get("use"), "var": h.get("var"), "hid": h["hid"]}
    if "panic" in r or r.get("lost"):
        rep.inconc("front end crashed (C07): " + str(r.get("panic", r.get("note")))[:100])
        return
    ks = errs.kinds(r)
    others = [k for k in ks if k != "MoveError"]
    if others:
        rep.declined += 1
        return
    move_errs = [e for e in r.get("errors", []) if e["kind"] == "MoveError"]
    if h["violation"]:
        if not move_errs:
            rep.violation(f"use-after-move-accepted:{h['scope']}:{h['move']}:{h['use']}",
                          f"`{h['var']}` is used ({h['use']}) after being moved ({h['move']}) in a {h['scope']} scope, no MoveError:\n{h['src'][len(PRELUDE):]}", case)
        elif not any(h["var"] in common_strip(e["msg"]) for e in move_errs):
            rep.violation(f"move-error-names-other-variable:{h['scope']}", f"MoveError does not name {h['var']}: {[common_strip(e['msg']) for e in move_errs]}", case)
        else:
            rep.ok((h["scope"], h["move"], h["use"]), {"scope": h["scope"], "history": h["src"][len(PRELUDE):]} if h["hid"] % 60 == 0 else None)
            rep.count("rejected_as_expected")
    else:
        if move_errs:
            rep.violation(f"false-move-error:{h['scope']}", f"history without any use after a move gets a MoveError {[common_strip(e['msg']) for e in move_errs]}:\n{h['src'][len(PRELUDE):]}", case)
        else:
            rep.ok(("clean", h["scope"], common.sha(h["src"])[:6]), None)
            rep.count("accepted_as_expected")


def common_strip(s):
    import re
    return re.sub(r"\x1b\[[0-9;]*m", "", s)


def replay(ctx, rep, case):
    if case.get("known"):
        return
    judge(rep, case, errs.errors_batch(ctx, [case["src"]])[0])
