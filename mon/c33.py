"""C33 An accepted match always has an arm that matches."""
import os
import random

from . import common, fragrun

LEVEL = "exploration"
RULE = ("generated functions `m(x: T) = match x: arms` with T in Int, Nat, Bool, Str, literal enums and closed intervals, and arms drawn "
        "from literals, type arms (_: Int/Nat/Str/Bool), interval arms (_: a..b, a<..b, a..<b, a<..<b) and the wildcard, each arm returning a unique marker; "
        "if `erg` accepts the program it is run on every value of a sampled domain of T (small ints, boundaries, enum members, a few "
        "strings); emit_match_instr runs the last arm unconditionally, so 'no arm matched' shows up as an arm running on a value its "
        "pattern excludes: a 20-line reference matcher (literal equality, class membership by the numeric tower, interval membership) "
        "must confirm that the arm that ran matches the value, and no run may end in an exception. distinct = distinct (T, arm-kind "
        "tuple) shapes that were accepted and executed")
MANIFEST = {
    "text": "Accepted matches are executed on their whole sampled scrutinee domain; the arm that ran is compared with a reference "
            "matcher, so an uncovered value is detected even though the generated code never raises on it.",
    "technique": "differential execution monitor: accepted match programs run on a value domain vs a reference pattern matcher",
    "note": "rejected (non-exhaustive or ill-typed) matches are declined: completeness of the exhaustiveness check is not judged",
}
STRS = ["a", "b", "", "zz"]


def domain(T):
    k = T[0]
    if k == "Int":
        return list(range(-3, 9)) + [-2**31, 2**31 - 1, 100]
    if k == "Nat":
        return list(range(0, 9)) + [2**31, 100]
    if k == "Bool":
        return [True, False]
    if k == "Str":
        return list(STRS)
    if k == "enum":
        return list(T[1])
    if k == "interval":
        return list(range(T[1], T[2] + 1))
    raise ValueError(k)


def show_type(T):
    k = T[0]
    if k in ("Int", "Nat", "Bool", "Str"):
        return k
    if k == "enum":
        return "{" + ", ".join(lit(v) for v in T[1]) + "}"
    return f"{T[1]}..{T[2]}"


def lit(v):
    if isinstance(v, bool):
        return "True" if v else "False"
    if isinstance(v, str):
        return '"' + v + '"'
    return str(v) if v >= 0 else f"-{-v}"


def gen_type(rng):
    k = rng.random()
    if k < 0.25:
        return ("Int",)
    if k < 0.4:
        return ("Nat",)
    if k < 0.5:
        return ("Bool",)
    if k < 0.6:
        return ("Str",)
    if k < 0.8:
        if rng.random() < 0.75:
            return ("enum", sorted(rng.sample(range(-2, 7), rng.randint(2, 4))))
        return ("enum", sorted(rng.sample(STRS, rng.randint(2, 3))))
    a = rng.randint(0, 4)
    return ("interval", a, a + rng.randint(1, 4))


def gen_arms(rng, T):
    dom = domain(T)
    strs = isinstance(dom[0], str)
    bools = isinstance(dom[0], bool)
    arms = []
    for _ in range(rng.randint(1, 5)):
        k = rng.random()
        if k < 0.5:
            v = rng.choice(dom) if rng.random() < 0.85 else (rng.choice(STRS) if strs else rng.choice([True, False]) if bools else rng.randint(-3, 9))
            arms.append(("lit", v))
        elif k < 0.75 and not strs and not bools:
            a = rng.randint(0, 5)
            op = rng.choice(["..", "..", "<..", "..<", "<..<"])
            arms.append(("interval", a, a + rng.randint(0 if op == ".." else 2, 4), op))
        elif k < 0.9:
            arms.append(("type", "Str" if strs else "Bool" if bools else rng.choice(["Int", "Nat"])))
        else:
            arms.append(("wild",))
    # make most matches plausibly exhaustive
    if rng.random() < 0.6:
        r = rng.random()
        if r < 0.4:
            arms.append(("wild",))
        elif r < 0.7:
            arms.append(("type", "Str" if strs else "Bool" if bools else "Int" if T[0] == "Int" else rng.choice(["Nat", "Int"])))
        else:
            # sometimes complete the match as if open interval ends were included: the result misses exactly the end points,
            # so a correct checker must reject it (declined) and an accepted one has a value without an arm
            sloppy = rng.random() < 0.35
            closed = lambda a: (a[0], a[1], a[2], "..") if a[0] == "interval" else a
            covered = {v for v in dom if any(matches(closed(a) if sloppy else a, v) for a in arms)}
            for v in dom:
                if v not in covered and len(dom) <= 8:
                    arms.append(("lit", v))
    return arms


def matches(arm, v):
    k = arm[0]
    if k == "wild":
        return True
    if k == "lit":
        return type(arm[1]) is type(v) and arm[1] == v
    if k == "interval":
        op = arm[3] if len(arm) > 3 else ".."
        lo_ok = arm[1] < v if op.startswith("<") else arm[1] <= v
        hi_ok = v < arm[2] if op.endswith("<") else v <= arm[2]
        return isinstance(v, int) and not isinstance(v, bool) and lo_ok and hi_ok
    if k == "type":
        t = arm[1]
        if t == "Str":
            return isinstance(v, str)
        if t == "Bool":
            return isinstance(v, bool)
        if t == "Int":
            return isinstance(v, int)
        if t == "Nat":
            return isinstance(v, int) and v >= 0
    return False


def show_arm(arm, i):
    k = arm[0]
    pat = {"wild": "_", "lit": None, "interval": None, "type": None}[k]
    if k == "lit":
        pat = lit(arm[1])
    elif k == "interval":
        pat = f"(_: {arm[1]}{arm[3] if len(arm) > 3 else '..'}{arm[2]})"
    elif k == "type":
        pat = f"(_: {arm[1]})"
    return f'    {pat} -> "ARM{i}"'


def build(case):
    T, arms = case["T"], case["arms"]
    lines = [f"m(x: {show_type(T)}) =", "  match x:"]
    lines = [f"m(x: {show_type(T)}) = match x:"] + [show_arm(a, i) for i, a in enumerate(arms)]
    for v in domain(T):
        lines.append(f'print! "V", m({lit(v)})' if not (isinstance(v, int) and not isinstance(v, bool) and v < 0) else f'print! "V", m(({lit(v)}))')
    return "\n".join(lines) + "\n"


def run_one(ctx, case):
    d = os.path.join(ctx.scratch, "c" + common.sha(case))
    os.makedirs(d, exist_ok=True)
    er = os.path.join(d, "m.er")
    src = build(case)
    open(er, "w").write(src)
    p = ctx.run([ctx.erg, "run", er], cwd=d, timeout=120)
    return case, src, p


def record(rep, case, src, p):
    T, arms = tuple(case["T"]), [tuple(a) for a in case["arms"]]
    shape = (T[0], tuple(a[0] for a in arms))
    if p.timed_out:
        rep.inconc("timeout")
        return
    crash = common.crash_signature(p)
    if crash:
        rep.inconc("compiler crash (C07): " + crash)
        return
    exc = fragrun.exc_class(p.serr)
    outs = [l.split(" ", 1)[1] for l in p.sout.splitlines() if l.startswith("V ")]
    dom = domain(T)
    if not outs and exc is None and p.rc != 0:
        rep.declined += 1
        return
    if exc is not None:
        k = len(outs)
        v = dom[k] if k < len(dom) else None
        if exc == "ValueError" and "Nat can't be negative" in p.serr and isinstance(v, int) and v < 0 and any(matches(a, v) for a in arms):
            # listed finding: an arm DOES match, but the scrutinee (narrowed by earlier non-negative literal/interval arms) is
            # wrapped in Nat(...) by the generated code
            rep.violation("known:negative-scrutinee-wrapped-as-nat",
                          f"value {v!r}: a matching arm exists, but the generated code wraps the scrutinee in Nat(...) and raises ValueError\n{src[:400]}", dict(case))
            return
        rep.violation(f"exception:{exc}:{T[0]}", f"accepted match raised {exc} on value {v!r}: {fragrun.strip_ansi(p.serr)[-200:]}\n{src[:600]}", dict(case))
        return
    for v, o in zip(dom, outs):
        if not o.startswith("ARM"):
            rep.violation("bad-output", f"unexpected output {o!r}", dict(case))
            return
        i = int(o[3:])
        if i >= len(arms) or not matches(arms[i], v):
            none = not any(matches(a, v) for a in arms)
            rep.violation(("no-arm-matches:" if none else "wrong-arm:") + T[0] + ":" + arms[i][0] if i < len(arms) else "bad-arm-index",
                          f"value {v!r} of type {show_type(T)}: arm {i} ({arms[i] if i < len(arms) else '?'}) ran, "
                          f"{'and NO arm of the accepted match matches it' if none else 'which does not match it'}\n{src[:700]}", dict(case))
            return
    if len(outs) != len(dom):
        rep.violation("missing-output", f"{len(outs)} of {len(dom)} values produced output", dict(case))
        return
    rep.ok(shape, {"program": src[:400]} if len(arms) <= 3 else None)
    rep.count("values_executed", len(dom))


def run(ctx, rep):
    rng = ctx.rng()
    cases = []
    for _ in range(ctx.n(260, 3000)):
        T = gen_type(rng)
        cases.append({"T": list(T), "arms": [list(a) for a in gen_arms(rng, T)]})
    for case, src, p in common.pmap(lambda c: run_one(ctx, c), cases):
        record(rep, case, src, p)
    rep.min_evaluations = 40


def replay(ctx, rep, case):
    record(rep, *run_one(ctx, case))
