"""Shared helper: diagnostics of the real front end (parse + lower + effect check + ownership check) through `vh errors`."""
from . import common


def errors_batch(ctx, srcs, timeout=900):
    """Returns a list of dicts {"ok": bool, "errors": [...], "warns": [...]} | {"panic": ...} | {"lost": True}."""
    srcs = list(srcs)
    out = []
    i = 0
    while i < len(srcs):
        resp, proc = ctx.vh_lines("errors", [{"src": s} for s in srcs[i:]], timeout=timeout)
        out += resp
        i += len(resp)
        if i < len(srcs):
            # the process died on srcs[i] (abort/stack overflow): record and continue after it
            out.append({"lost": True, "note": common.crash_signature(proc) or f"rc={proc.rc}"})
            i += 1
    return out


def kinds(r):
    return [e["kind"] for e in r.get("errors", [])]
