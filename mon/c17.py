"""C17 Transpiled Python behaves like the compiled bytecode."""
import glob
import os
import random

from . import common, frag, fragrun

LEVEL = "translation_validation"
RULE = ("Frag programs (hostile string pool on) and the repository's should_ok/examples corpus are transpiled with `erg transpile`; "
        "when the transpiler does not decline (exit status 0 and a .py written), the script must byte-compile "
        "(`python3 -m py_compile`) and running it must give the same stdout (after the sentinel for Frag programs), exit status and "
        "exception class as `erg run` of the same program. distinct = distinct program skeletons / corpus files compared")
MANIFEST = {
    "text": "Differential execution of the two back ends on the same program: the compiled bytecode is the reference the property "
            "names; generated programs additionally carry hostile string contents.",
    "technique": "differential execution monitor: `erg transpile` + CPython vs `erg run` (bytecode) per program",
    "note": "a transpiler failure with diagnostics or a panic is 'declined' here (not-yet-implemented features; crashes are C07's subject)",
}


def transpile_and_compare(ctx, er, d, sentinel=True):
    res = {}
    pr = fragrun.erg_run(ctx, er)
    if pr.timed_out:
        return {"status": "inconclusive", "note": "erg run timeout"}
    if common.crash_signature(pr):
        return {"status": "crash", "note": common.crash_signature(pr)}
    if sentinel:
        ref = fragrun.outcome(pr)
        if not ref["started"] and ref["exc"] is None:
            return {"status": "declined"}
    else:
        if pr.rc != 0 and fragrun.compile_rejected(pr):
            return {"status": "declined"}
        ref = {"out": strip_diag(pr.sout), "rc": pr.rc, "exc": fragrun.exc_class(pr.serr)}
    pt = ctx.run([ctx.erg, "transpile", er], cwd=d, timeout=180)
    pyf = er[:-3] + ".py"
    if pt.timed_out:
        return {"status": "inconclusive", "note": "transpile timeout"}
    if pt.rc != 0 or not os.path.exists(pyf) or common.crash_signature(pt):
        return {"status": "declined", "why": (common.crash_signature(pt) or fragrun.strip_ansi(pt.serr + pt.sout)[-160:])}
    pc = ctx.run([common.DEFAULT_PY, "-m", "py_compile", pyf], cwd=d, timeout=120)
    if pc.rc != 0:
        return {"status": "diff", "detail": {"how": "py_compile", "stderr": pc.serr[-400:]}}
    pp = ctx.run([common.DEFAULT_PY, pyf], cwd=d, timeout=120)
    if sentinel:
        got = fragrun.outcome(pp)
    else:
        got = {"out": pp.sout, "rc": pp.rc, "exc": fragrun.exc_class(pp.serr)}
    same = got["out"] == ref["out"] and got["rc"] == ref["rc"] and got["exc"] == ref["exc"]
    if not same:
        la, lb = got["out"].split("\n"), ref["out"].split("\n")
        k = 0
        while k < min(len(la), len(lb)) and la[k] == lb[k]:
            k += 1
        return {"status": "diff", "detail": {"how": "run", "first_diff_line": k, "script_line": la[k:k + 1], "bytecode_line": lb[k:k + 1],
                                              "script": {"rc": got["rc"], "exc": got["exc"]}, "bytecode": {"rc": ref["rc"], "exc": ref["exc"]},
                                              "script_stderr": pp.serr[-300:]}}
    return {"status": "same", "lines": ref["out"].count("\n")}


def strip_diag(out):
    """corpus programs have no sentinel: drop the diagnostics block `erg run` prints on stdout before the program starts"""
    text = fragrun.strip_ansi(out)
    lines = text.split("\n")
    keep, i = [], 0
    while i < len(lines):
        if lines[i].startswith("Warning[#") or lines[i].startswith("Error[#"):
            # skip to the line that names the warning/error class, and the blank line after it
            while i < len(lines) and not (lines[i].strip().endswith("Warning") is False and ("Warning: " in lines[i] or "Error: " in lines[i])):
                i += 1
            i += 2
            continue
        keep.append(lines[i])
        i += 1
    return "\n".join(keep)


def run_one(ctx, case):
    d = os.path.join(ctx.scratch, "c" + common.sha(case))
    os.makedirs(d, exist_ok=True)
    if "file" in case:
        src = open(case["file"], encoding="utf-8").read()
        er = os.path.join(d, os.path.basename(case["file"]))
        open(er, "w", encoding="utf-8").write(src)
        r = transpile_and_compare(ctx, er, d, sentinel=False)
        r["skel"] = "file:" + os.path.basename(case["file"])
    else:
        # (Bool `&& || ^^` give an int in the transpiled script's runtime, and a multi-statement if! nested in a loop or
        # subroutine is hoisted into a module-level helper that cannot see the enclosing locals: listed findings, see
        # KNOWN_CASES; the generated programs therefore nest blocks one level deep)
        tree = frag.generate(random.Random(case["seed"]), frag.Opts(**dict({"bitops": False, "max_depth": 1}, **case.get("opts", {}))))
        er, _ = fragrun.write_case(d, "p", tree)
        r = transpile_and_compare(ctx, er, d)
        r["skel"] = common.sha(frag.skeleton(tree))
    r["case"] = case
    r["src"] = open(er, encoding="utf-8").read()[:1500]
    return r


def record(rep, r):
    st = r["status"]
    if st == "same":
        rep.ok(r["skel"], {"program": r["src"][:500]} if r.get("lines", 99) < 8 else None)
        rep.count("corpus_compared" if "file" in r["case"] else "generated_compared")
    elif st == "declined":
        rep.declined += 1
        if r.get("why"):
            rep.count("transpiler_declined")
    elif st == "crash":
        rep.inconc("compiler crash (C07): " + r["note"])
    elif st == "inconclusive":
        rep.inconc(r["note"])
    else:
        d = r["detail"]
        sig = ("corpus:" + os.path.basename(r["case"]["file"]) + ":" + d["how"]) if "file" in r["case"] else ("diff:" + d["how"])
        rep.violation(sig, f"{d}\nprogram:\n{r['src'][:1200]}", r["case"])


KNOWN_CASES = [
    ("known:assert-last-in-block", 'c = True\nif! c:\n    do!:\n        print!("a")\n        assert(1 < 2)\n    do!:\n        print!("b")\n'),
    ("known:bool-bitop-result-is-int", 'print!((True || False), (True ^^ True), (True && True))\n'),
    ("known:multi-statement-if-in-loop-loses-locals", 'for! 0..<2, i =>\n    c = i > 0\n    if! c:\n        do!:\n            print!("a", i)\n            print!("b", i)\n        do!:\n            print!("c", i)\n            print!("d", i)\n'),
    ("known:for-last-in-block", 'c = True\nif! c:\n    do!:\n        print!("a")\n        for! 0..<2, i =>\n            print!(i)\n    do!:\n        print!("b")\n'),
]


def run(ctx, rep):
    n = ctx.n(160, 3000)
    cases = [{"seed": f"C17:{ctx.seed}:{i}"} for i in range(n)]
    files = sorted(glob.glob(os.path.join(ctx.repo, "tests/should_ok/*.er")) + glob.glob(os.path.join(ctx.repo, "examples/*.er")))
    cases += [{"file": f} for f in files]
    for r in common.pmap(lambda c: run_one(ctx, c), cases):
        record(rep, r)
    for sig, src in KNOWN_CASES:
        d = os.path.join(ctx.scratch, "known" + common.sha(sig))
        os.makedirs(d, exist_ok=True)
        er = os.path.join(d, "k.er")
        open(er, "w").write('print!("' + frag.SENTINEL + '")\n' + src)
        r = transpile_and_compare(ctx, er, d)
        if r["status"] == "diff":
            rep.violation(sig, str(r["detail"])[:400], {"known": sig})
    rep.programs = rep.evaluations
    rep.disagreements_checked = len(rep.violations)
    rep.min_evaluations = 40


def replay(ctx, rep, case):
    if "known" in case:
        return
    record(rep, run_one(ctx, case))
