"""C31 Module path normalisation identifies only identical files (exhaustive over a bounded path grammar)."""
import itertools

from . import common

LEVEL = "exploration"
RULE = ("exhaustive: every relative and absolute path of 1..N components over {., .., a, b} (N=8: 174 760 paths), normalised by the "
        "real NormalizedPathBuf::new through `vh path`; oracle = independent lexical POSIX normaliser; checks idempotence and "
        "new(p)==new(q) => ref(p)==ref(q); distinct = distinct reference classes reached")
MANIFEST = {
    "text": "Exhaustive enumeration of the bounded path space named in the property; each path goes through the real "
            "NormalizedPathBuf::new, equality classes are compared with an independent lexical normaliser.",
    "technique": "exhaustive differential monitor: NormalizedPathBuf (in-process harness) vs reference lexical normaliser",
    "note": "lexical reading of 'same file' (no symlinks); equality of NormalizedPathBuf observed through its component sequence",
}


def ref_norm(p):
    absolute = p.startswith("/")
    st = []
    for c in p.split("/"):
        if c in ("", "."):
            continue
        if c == "..":
            if st and st[-1] != "..":
                st.pop()
            elif absolute:
                pass
            else:
                st.append("..")
        else:
            st.append(c)
    return ("/" if absolute else "") + "/".join(st)


def gen_paths(maxlen):
    alpha = [".", "..", "a", "b"]
    for n in range(1, maxlen + 1):
        for comps in itertools.product(alpha, repeat=n):
            rel = "/".join(comps)
            yield rel
            yield "/" + rel


def judge_batch(ctx, rep, paths):
    resp, proc = ctx.vh_lines("path", [{"p": p} for p in paths], timeout=900)
    if len(resp) != len(paths):
        raise common.Inconclusive(f"vh path answered {len(resp)} of {len(paths)} requests (rc={proc.rc}) {proc.serr[-300:]}")
    classes = {}
    for p, r in zip(paths, resp):
        if "panic" in r:
            rep.violation(f"panic:{r['panic'].split(': ')[0]}", f"NormalizedPathBuf::new({p!r}) panicked: {r['panic']}", {"paths": [p]})
            continue
        if not r["eq_again"]:
            rep.violation("not-idempotent:" + shape(p), f"new(new({p!r})) = {r['again']!r} != new({p!r}) = {r['norm']!r}", {"paths": [p]})
            continue
        classes.setdefault(tuple(r["key"]), []).append(p)
    for key, members in classes.items():
        refs = {}
        for m in members:
            refs.setdefault(ref_norm(m), m)
        if len(refs) > 1:
            (r1, p1), (r2, p2) = sorted(refs.items())[:2]
            # signature: the shape of the shortest conflicting pair
            sp = sorted(refs.values(), key=lambda x: (len(x), x))[:2]
            rep.violation("conflated:" + conflation_kind(refs),
                          f"paths {sp[0]!r} and {sp[1]!r} (different files: {ref_norm(sp[0])!r} vs {ref_norm(sp[1])!r}) "
                          f"both normalise to {'/'.join(key)!r}; {len(refs)} distinct files in this class",
                          {"paths": sp})
        else:
            rep.ok(next(iter(refs)), {"path": members[0], "normalised": "/".join(key), "class_size": len(members)})


def conflation_kind(refs):
    rel = any(not r.startswith("/") for r in refs)
    up = any(r.startswith("..") for r in refs)
    if rel and up:
        return "relative-leading-parent-dropped"
    return "other:" + "|".join(sorted(refs)[:2])


def shape(p):
    return ("abs:" if p.startswith("/") else "rel:") + str(len(p.split("/")))


def run(ctx, rep):
    maxlen = 8
    paths = list(gen_paths(maxlen))
    rep.max_samples = 8
    for chunk in common.chunks(paths, 60000):
        pass
    # classes must be computed over the whole set, so one batch
    judge_batch(ctx, rep, paths)
    rep.exhaustive = True
    rep.extra["paths_enumerated"] = len(paths)
    rep.extra["max_components"] = maxlen
    rep.min_evaluations = 50
    rep.assumptions.append("no symlinks: 'same file' is decided lexically (POSIX), as the property's idempotence/leading-.. wording implies")


def replay(ctx, rep, case):
    judge_batch(ctx, rep, case["paths"])
