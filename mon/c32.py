"""C32 Refinement predicate combinators denote set operations (exact oracle on an integer window)."""
import itertools
import json

from . import common

LEVEL = "exploration"
RULE = ("predicate trees over one Int variable built through the real Predicate::{eq,ne,ge,le,gt,lt,and,or,invert} (and the "
        "& | ! operators) via `vh pred`; oracle = own evaluator of the requested tree vs own evaluator of the dumped result on the "
        "window [min const-3, max const+3], which is exact for comparison atoms; exhaustive for small depth, random beyond; "
        "distinct = distinct satisfying-sets (as bit masks) x top-level combinator")
MANIFEST = {
    "text": "Every generated tree is built with the real combinators and the resulting Predicate value is evaluated by an "
            "independent evaluator; set semantics (intersection/union/complement) is compared point-wise on a window that is "
            "exact for one-variable comparison atoms. Depth<=1 (quick) / depth<=2 over 3 constants (thorough) exhaustively, "
            "plus random trees to depth 4.",
    "technique": "differential monitor with exact executable oracle (window evaluation) over in-process Predicate values",
    "note": "the evaluator of the dumped enum is ~30 lines and trusted; SMT is replaced by exact window evaluation (DESIGN.md section 0)",
}
ATOMS = ["eq", "ne", "ge", "le", "gt", "lt"]


def ev_ref(t, i):
    k = t[0]
    if k == "true": return True
    if k == "false": return False
    if k == "eq": return i == t[1]
    if k == "ne": return i != t[1]
    if k == "ge": return i >= t[1]
    if k == "le": return i <= t[1]
    if k == "gt": return i > t[1]
    if k == "lt": return i < t[1]
    if k == "and": return ev_ref(t[1], i) and ev_ref(t[2], i)
    if k == "or": return ev_ref(t[1], i) or ev_ref(t[2], i)
    if k == "not": return not ev_ref(t[1], i)
    raise ValueError(k)


class Unknown(Exception):
    pass


def ev_dump(d, i):
    k = d[0]
    if k == "true": return True
    if k == "false": return False
    if k in ("eq", "ne", "ge", "le"):
        c = d[1]
        if not isinstance(c, int) or isinstance(c, bool) or d[2] != "I":
            raise Unknown(str(d))
        return {"eq": i == c, "ne": i != c, "ge": i >= c, "le": i <= c}[k]
    if k == "and": return ev_dump(d[1], i) and ev_dump(d[2], i)
    if k == "or*": return any(ev_dump(x, i) for x in d[1:])
    if k == "not": return not ev_dump(d[1], i)
    raise Unknown(str(d))


def consts_of(t):
    if t[0] in ATOMS:
        return [t[1]]
    out = []
    for x in t[1:]:
        if isinstance(x, list):
            out += consts_of(x)
    return out


def depth(t):
    return 1 + max([depth(x) for x in t[1:] if isinstance(x, list)] or [0]) if t[0] in ("and", "or", "not") else 0


def leaves(consts):
    out = [["true"], ["false"]]
    for a in ATOMS:
        for c in consts:
            out.append([a, c])
    return out


def exhaustive(consts, maxdepth):
    level = leaves(consts)
    allt = list(level)
    for _ in range(maxdepth):
        new = [["not", t] for t in allt]
        for op in ("and", "or"):
            for l, r in itertools.product(allt, repeat=2):
                new.append([op, l, r])
        allt = leaves(consts) + new  # trees of depth <= d+1 (children drawn from depth <= d)
    return allt


def rand_tree(rng, d, consts):
    if d == 0 or rng.random() < 0.15:
        if rng.random() < 0.05:
            return [rng.choice(["true", "false"])]
        return [rng.choice(ATOMS), rng.choice(consts)]
    k = rng.random()
    if k < 0.25:
        return ["not", rand_tree(rng, d - 1, consts)]
    return [rng.choice(["and", "or"]), rand_tree(rng, d - 1, consts), rand_tree(rng, d - 1, consts)]


def judge_batch(ctx, rep, cases):
    resp, proc = ctx.vh_lines("pred", cases, timeout=1800)
    if len(resp) != len(cases):
        raise common.Inconclusive(f"vh pred answered {len(resp)}/{len(cases)} rc={proc.rc} {proc.serr[-300:]}")
    for case, r in zip(cases, resp):
        t = case["tree"]
        if "panic" in r:
            rep.violation("panic:" + r["panic"].split(": ")[0], f"building {t} panicked: {r['panic']}", case)
            continue
        cs = consts_of(t) or [0]
        lo, hi = min(cs) - 3, max(cs) + 3
        try:
            bad = None
            mask = 0
            for i in range(lo, hi + 1):
                a, b = ev_ref(t, i), ev_dump(r["dump"], i)
                mask = (mask << 1) | int(a)
                if a != b and bad is None:
                    bad = (i, a, b)
        except Unknown as e:
            rep.inconc(f"unknown predicate form {e}")
            continue
        if bad:
            rep.violation(f"set-semantics:{t[0]}",
                          f"tree {json.dumps(t)} became `{r['display']}`: at I={bad[0]} expected {bad[1]} got {bad[2]}", case)
        else:
            rep.ok((t[0], lo, mask), {"tree": t, "result": r["display"]} if depth(t) >= 2 else None)


def run(ctx, rep):
    rng = ctx.rng()
    cases = []
    if ctx.quick:
        for t in exhaustive(list(range(-4, 5)), 1):
            cases.append({"tree": t, "ops": False})
        n_rand = 120000
    else:
        for t in exhaustive([-1, 0, 1], 2):
            cases.append({"tree": t, "ops": False})
        for t in exhaustive(list(range(-4, 5)), 1):
            cases.append({"tree": t, "ops": True})
        n_rand = 3000000
    rep.extra["exhaustive_part"] = len(cases)
    consts = list(range(-4, 5))
    for _ in range(n_rand):
        cases.append({"tree": rand_tree(rng, rng.choice([2, 3, 3, 4]), consts), "ops": rng.random() < 0.5})
    rep.extra["random_part"] = n_rand
    common.run_parallel(rep, cases, lambda sr, part: judge_batch(ctx, sr, part))
    rep.min_evaluations = 5000
    rep.assumptions.append("integers only; one variable; comparison atoms: the window [min-3,max+3] decides equality of satisfying sets exactly")


def replay(ctx, rep, case):
    judge_batch(ctx, rep, [case])
