"""C07 The checker and code generator never crash on a well-formed program."""
import os
import random
import re

from . import common, frag, fragrun, errs, c08, zoo

LEVEL = "exploration"
RULE = ("syntactically valid programs: a zoo of constructs outside the Frag fragment (match arms of every arity, with defaults and "
        "patterns; records incl. the empty one; collections; destructuring; classes, inheritance, traits; mutation; keyword, default "
        "and variable arguments; many ill-typed on purpose); Frag programs as generated, with parameter/return annotations removed at random (untyped "
        "parameters), with literals swapped for literals of other types, with statements deleted (dangling names) or duplicated, and "
        "corpus files (should_ok, should_err, examples) with the same token-preserving mutations when the result still parses; the "
        "front end runs in-process on all of them (corpus mutants are a fixed seed-independent list, half of the generated programs vary with VERIF_SEED, those with swapped literals and dropped lines are a fixed list) (`vh errors`: a panic is caught and located), a sample goes through `erg check` and "
        "`erg compile` at -o 0..3. Oracle: no panic, abort, signal, hang (240 s alone), no 'bug of Erg' text and no "
        "CompilerSystemError diagnostic; ordinary diagnostics are fine. distinct = distinct (mutation kind, outcome kind) pairs")
MANIFEST = {
    "text": "Crash monitoring over thousands of well-formed (well- and ill-typed) programs per run; panics are located by file:line, "
            "internal-error diagnostics by their kind.",
    "technique": "crash/ICE monitor over generated and mutated well-formed programs (in-process front end + CLI at every -o level)",
    "note": "signatures are panic sites / internal-error kinds; the debug build (the one the test suite uses) keeps debug_assert! active",
}
ICE_RE = re.compile(r"bug of (the )?Erg|CompilerSystemError", re.I)


def strip_annotations(src, rng):
    def repl(m):
        return m.group(1) if rng.random() < 0.6 else m.group(0)
    out = []
    for line in src.split("\n"):
        if re.match(r"^\s*[a-z]\w*!?\(.*\).*=\s*$|^\s*[a-z]\w*!?\(.*\).*= ", line) and "idi_" not in line and "idf_" not in line:
            line = re.sub(r"(\b[a-z]\w*): (Int|Str|Bool|Float|Nat)\b", repl, line)
            if rng.random() < 0.5:
                line = re.sub(r"\): (Int|Str|Bool|Float|Nat) =", ") =", line)
        out.append(line)
    return "\n".join(out)


def swap_literal(src, rng):
    lits = list(re.finditer(r'(?<![\w.])(\d+\.\d+|\d+|"[^"\\\n]*"|True|False)(?![\w.])', src))
    if not lits:
        return src
    m = rng.choice(lits)
    new = rng.choice(['"s"', "1", "2.5", "True", "[1]", "None", "(-3)"])
    return src[:m.start()] + new + src[m.end():]


def drop_or_dup_line(src, rng):
    lines = src.split("\n")
    idx = [i for i, l in enumerate(lines) if l.strip() and not l.rstrip().endswith(("=", "=>", ":")) and i > 2]
    if not idx:
        return src
    i = rng.choice(idx)
    if rng.random() < 0.6:
        del lines[i]
    else:
        lines.insert(i, lines[i])
    return "\n".join(lines)


MUTS = {"as-is": lambda s, r: s, "untyped-params": strip_annotations, "swap-literal": swap_literal, "drop-or-dup-line": drop_or_dup_line,
        "untyped+swap": lambda s, r: swap_literal(strip_annotations(s, r), r)}


def judge_front(rep, case, r):
    if r.get("lost"):
        rep.violation("abort:" + str(r.get("note")), f"front end process died ({r.get('note')}) on [{case['mut']}]:\n{case['src'][:500]}", case)
        return False
    if "panic" in r:
        site = common._relsrc(r["panic"].split(": ")[0])
        if r["panic"].rstrip().endswith("has qvar"):
            site = "debug-assert-has-qvar"     # one defect (a quantified variable escapes instantiation), tripping whichever assert runs first
        rep.violation("panic:" + site, f"checker panicked at {r['panic'][:200]} on [{case['mut']}]:\n{case['src'][:600]}", case)
        return False
    for e in r.get("errors", []):
        if e["kind"] == "CompilerSystemError" or ICE_RE.search(e["msg"]):
            rep.violation(f"ice:{e['kind']}:{ice_class(e['msg'])}", f"internal error diagnostic `{common_strip(e['msg'])[:160]}` on [{case['mut']}]:\n{case['src'][:600]}", case)
            return False
    # syntax errors mean the mutation broke well-formedness: not in scope
    if any(e["kind"] == "SyntaxError" or "Syntax" in e["kind"] for e in r.get("errors", [])):
        rep.declined += 1
        return False
    rep.ok((case["mut"], "accepted" if r.get("ok") else "rejected:" + (r["errors"][0]["kind"] if r.get("errors") else "?")),
           {"mutation": case["mut"], "outcome": "accepted" if r.get("ok") else r["errors"][0]["kind"], "program_head": case["src"][:200]}
           if len(case["src"]) < 500 else None)
    return bool(r.get("ok"))


def ice_class(msg):
    m = re.search(r"Type (\S+) is not found|Caused from: (\w+)", common_strip(msg))
    if m:
        return (m.group(1) or m.group(2)).split(".")[-1][:30]
    return common_strip(msg)[:30].replace(" ", "_")


def common_strip(s):
    return re.sub(r"\x1b\[[0-9;]*m", "", s)


def cli_stage(ctx, rep, cases):
    def one(case):
        d = os.path.join(ctx.scratch, "cli" + common.sha(case["src"]))
        os.makedirs(d, exist_ok=True)
        er = os.path.join(d, "p.er")
        open(er, "w", encoding="utf-8").write(case["src"])
        res = []
        for args in (["check"], ["-o", "0", "compile"], ["-o", "1", "compile"], ["-o", "2", "compile"], ["-o", "3", "compile"]):
            p = ctx.run([ctx.erg, *args, er], cwd=d, timeout=240)
            res.append((" ".join(args), p))
        return case, res
    for case, res in common.pmap(one, cases):
        for how, p in res:
            crash = common.crash_signature(p) or common.ice_signature(p)
            if p.timed_out:
                p2 = ctx.run([ctx.erg, *how.split(), os.path.join(ctx.scratch, "cli" + common.sha(case["src"]), "p.er")], timeout=480)
                if p2.timed_out:
                    rep.violation("hang:" + how.split()[-1], f"`erg {how}` does not finish (480 s alone) on:\n{case['src'][:500]}", case)
                else:
                    rep.inconc("slow compile")
            elif crash:
                if re.search(r"Type \S+ is not found", p.serr + p.sout) and "ice:" in crash:
                    crash = "ice:type-not-found"
                m = re.search(r"panicked at (\S+?):(\d+)", p.serr)
                if m:
                    crash = "panic:" + common._relsrc(m.group(1) + ":" + m.group(2))
                    mm = re.search(r"panicked at [^\n]*\n([^\n]*)", p.serr)
                    if mm and "has qvar" in mm.group(1):
                        crash = "panic:debug-assert-has-qvar"
                rep.violation(f"cli:{crash}", f"`erg {how}` crashed: {crash}\n{fragrun.strip_ansi(p.serr)[-300:]}\nprogram [{case['mut']}]:\n{case['src'][:500]}", case)
            else:
                rep.ok(("cli", how, p.rc))
                rep.count("cli_runs")


def run(ctx, rep):
    rng = ctx.rng()
    cases = []
    # fixed list (quick's is a prefix of thorough's): every mutation kind
    for i in range(ctx.n(400, 20000)):
        r = random.Random(f"C07:fixed:{i}")
        base = frag.to_erg(frag.generate(r), top=True) + "\n"
        mut = r.choice(list(MUTS))
        cases.append({"src": MUTS[mut](base, r), "mut": mut})
    # seed-dependent: programs as generated and with annotations removed
    for i in range(ctx.n(300, 6000)):
        r = random.Random(f"C07:{ctx.seed}:{i}")
        base = frag.to_erg(frag.generate(r), top=True) + "\n"
        mut = r.choice(["as-is", "untyped-params"])
        cases.append({"src": MUTS[mut](base, r), "mut": mut})
    # construct zoo (match arms of every arity, records incl. the empty one, collections, patterns, classes, keyword/default
    # arguments ...): a fixed list plus a seed-dependent slice
    for i in range(ctx.n(800, 20000)):
        src, kinds = zoo.program(f"C07:zoo:{i}")
        cases.append({"src": src, "mut": "zoo:" + "+".join(sorted(set(kinds)))[:60]})
    for i in range(ctx.n(150, 3000)):
        src, kinds = zoo.program(f"C07:zoo:{ctx.seed}:{i}")
        cases.append({"src": src, "mut": "zoo:" + "+".join(sorted(set(kinds)))[:60]})
    for f in c08.corpus_files(ctx):
        try:
            t = open(f, encoding="utf-8").read()
        except (OSError, UnicodeDecodeError):
            continue
        if "import" in t:
            continue     # relative imports cannot be resolved from an in-memory source
        cases.append({"src": t, "mut": "corpus:" + os.path.basename(f)})
        for k in range(ctx.n(3, 30)):
            # seed-independent: the corpus mutants are a fixed, growing list (quick's are a prefix of thorough's)
            r = random.Random(f"C07:fixed:{os.path.relpath(f, ctx.repo)}:{k}")
            mut = r.choice(["swap-literal", "drop-or-dup-line"])
            cases.append({"src": MUTS[mut](t, r), "mut": "corpus+" + mut})
    accepted = []
    parts = list(common.chunks(cases, max(1, len(cases) // (common.NCPU * 3))))
    for part, res in zip(parts, common.pmap(lambda p: errs.errors_batch(ctx, [c["src"] for c in p]), parts)):
        for c, r in zip(part, res):
            if judge_front(rep, c, r):
                accepted.append(c)
    rng.shuffle(accepted)
    zoo_ok = [c for c in accepted if c["mut"].startswith("zoo:")]
    cli_stage(ctx, rep, [c for c in accepted if not c["mut"].startswith("zoo:")][: ctx.n(30, 1200)] + zoo_ok[: ctx.n(60, 1500)]
              + [c for c in cases if c["mut"].startswith("untyped")][: ctx.n(10, 300)])
    rep.min_evaluations = 300


def replay(ctx, rep, case):
    r = errs.errors_batch(ctx, [case["src"]])[0]
    if judge_front(rep, case, r):
        cli_stage(ctx, rep, [case])
