"""C08 The lexer is total and reports faithful token positions."""
import glob
import os
import re

from . import common

LEVEL = "exploration"
RULE = ("inputs: (a) lexeme soups (identifiers incl. non-ASCII, numbers, operators, strings with every escape, interpolations, "
        "comments, indentation) with random spacing, (b) hostile short strings over quotes/backslashes/braces/comment markers/tabs/"
        "bidi/CR, (c) every truncation of corpus files near string and comment syntax; lexed by the real Lexer (`vh lex`). "
        "Oracle: no panic/hang; ok => stream ends with EOF and #Indent == #Dedent, else >= 1 error; tokens in strictly increasing "
        "(line, col) order; every non-synthetic token's text is found in the source at its reported (line, col). "
        "distinct = distinct token-kind sequences")
MANIFEST = {
    "text": "Structural invariants of the token stream are asserted on every lexed input; positions are checked against the source "
            "text itself (no reference lexer needed). Tens of thousands of generated, hostile and truncated inputs per run.",
    "technique": "invariant monitor over the token stream of the real lexer (in-process harness), generated + hostile + truncation workloads",
    "note": "CR characters only checked for totality (the lexer normalises newlines first); columns are counted in characters",
}

SYNTHETIC = {"Newline", "Indent", "Dedent", "EOF", "BOF"}
STRING_START = {"StrLit": '"', "StrInterpLeft": '"', "StrInterpMid": "}", "StrInterpRight": "}", "DocComment": "'"}


def corpus_files(ctx):
    fs = []
    for pat in ("tests/should_ok/*.er", "tests/should_err/*.er", "examples/*.er", "crates/erg_compiler/lib/std/*.er"):
        fs += sorted(glob.glob(os.path.join(ctx.repo, pat)))
    return fs


# ---------------------------------------------------------------- generators
IDENTS = ["a", "x1", "foo", "Bar", "_p", "zz", "日本", "é", "αβ", "p!", "x_y", "i", "do", "then"]
NUMS = ["0", "1", "42", "1_000", "3.14", "0.5", "1e3", "2e-3", "0b101", "0o17", "0xff", "10"]
OPS = ["+", "-", "*", "/", "//", "%", "**", "==", "!=", "<", ">", "<=", ">=", "=", ":", "::", ".", ",", "->", "=>", "|>", "&&",
       "||", "^^", "<<", ">>", "..", "..<", "<..", "<..<", "~", "!", "@", "|", "&", "?", ";", ":=", "<-", "<:", ":>", "...", "as",
       "and", "or", "not", "in", "notin", "is!", "isnot!", "ref", "ref!"]
BRACKETS = ["(", ")", "[", "]", "{", "}"]
ESC = ["\\n", "\\t", "\\r", "\\0", "\\\\", '\\"', "\\'", "\\x41", "\\x7f"]


def gen_string(rng, allow_interp=True):
    parts = []
    for _ in range(rng.randint(0, 5)):
        r = rng.random()
        if r < 0.4:
            parts.append(rng.choice(["a", "bc", " ", "hello", "é", "日本", "😀", "#", "'", "{", "}", "%d"]))
        elif r < 0.8:
            parts.append(rng.choice(ESC))
        elif allow_interp:
            parts.append("\\{" + rng.choice(["x", "a + 1", '"in"', "f 1", "x.y"]) + "}")
    return '"' + "".join(parts) + '"'


def gen_line(rng):
    toks = []
    for _ in range(rng.randint(1, 9)):
        r = rng.random()
        if r < 0.3:
            toks.append(rng.choice(IDENTS))
        elif r < 0.45:
            toks.append(rng.choice(NUMS))
        elif r < 0.7:
            toks.append(rng.choice(OPS))
        elif r < 0.8:
            toks.append(rng.choice(BRACKETS))
        elif r < 0.95:
            toks.append(gen_string(rng))
        else:
            toks.append(rng.choice(["#[ c ]#", "'''doc'''", '"""multi"""', "'raw id'"]))
    s = ""
    for t in toks:
        s += t + rng.choice(["", " ", " ", "  "])
    if rng.random() < 0.15:
        s += rng.choice(["# comment", "# é comment \\n", "#"])
    return s


def gen_soup(rng):
    lines = []
    indent = 0
    for _ in range(rng.randint(1, 8)):
        r = rng.random()
        if r < 0.2:
            indent += 4
        elif r < 0.35 and indent:
            indent -= 4
        elif r < 0.4:
            indent = rng.choice([0, 1, 2, 3, 4, 6, 8])
        if rng.random() < 0.1:
            lines.append("")
        lines.append(" " * indent + gen_line(rng))
    return "\n".join(lines) + rng.choice(["\n", "", "\n\n"])


HOSTILE = ['"', "'", "\\", "{", "}", "\\{", "#[", "]#", "#", "\t", "\n", "\r", "\r\n", " ", "\u202e", "\u2066", "a", "1", ".",
           "é", "😀", "\"\"\"", "'''", "=", "-", "0x", "1e", "_", "\\x", "\\n", "(", ")", "[", "]", ":", "!", "\0", "\u3000"]


def gen_hostile(rng):
    return "".join(rng.choice(HOSTILE) for _ in range(rng.randint(1, 24)))


def truncations(text, rng, limit):
    """Cut points concentrated around string/comment/escape syntax."""
    pts = set()
    for m in re.finditer(r'["\'\\{}#\]]', text):
        for d in (0, 1, 2):
            pts.add(m.start() + d)
    pts = [p for p in pts if 0 < p <= len(text)]
    rng.shuffle(pts)
    return [text[:p] for p in pts[:limit]]


# ---------------------------------------------------------------- oracle
def scan_string_src(line, col):
    """Length in source characters of a double-quoted single-line string piece starting at line[col] (a quote or '}')."""
    i = col + 1
    n = len(line)
    while i < n:
        c = line[i]
        if c == "\\":
            if i + 1 < n and line[i + 1] == "{":
                return i + 2 - col     # StrInterpLeft/Mid ends with \{
            i += 2
            continue
        if c == '"':
            return i + 1 - col
        i += 1
    return None


def check_stream(src, r):
    """Returns None if all invariants hold, else (sig, what)."""
    toks = r["tokens"]
    if r["ok"]:
        if not toks or toks[-1]["k"] != "EOF":
            return ("no-eof", f"ok stream does not end with EOF: {[t['k'] for t in toks[-3:]]}")
        ni = sum(1 for t in toks if t["k"] == "Indent")
        nd = sum(1 for t in toks if t["k"] == "Dedent")
        if ni != nd:
            return ("indent-balance", f"{ni} Indent vs {nd} Dedent")
    else:
        if not r["errors"]:
            return ("no-error", "lexing failed but reported no error")
    if "\r" in src:
        return None
    lines = src.split("\n")
    prev = (0, -1)
    for t in toks:
        k = t["k"]
        pos = (t["l"], t["b"])
        if k in SYNTHETIC:
            continue
        if k == "Illegal":
            continue   # error tokens: position is what the diagnostic shows (C24), content is partial
        if pos <= prev and r["ok"]:
            return ("order", f"token {t} at {pos} does not come after the previous token at {prev}")
        prev = pos
        if not r["ok"]:
            continue   # positions are only judged on streams the lexer accepted
        if t["l"] < 1 or t["l"] > len(lines):
            return ("line-range", f"token {t} on line {t['l']} of {len(lines)}")
        line = lines[t["l"] - 1]
        b = t["b"]
        if k in STRING_START:
            q = STRING_START[k]
            ok = line[b:b + 1] == q or (k in ("StrLit", "DocComment", "StrInterpLeft") and line[b:b + 1] in ("\"", "'"))
            if not ok:
                return (f"pos:{k}", f"{k} token reported at {t['l']}:{b} but the source there is {line[b:b+6]!r} (line {line!r})")
        else:
            c = t["c"]
            if line[b:b + len(c)] != c:
                return (f"pos:{k}", f"{k} token {c!r} reported at {t['l']}:{b} but the source there is {line[b:b+len(c)+3]!r} (line {line!r})")
    return None


def drift_model_ok(src, r):
    """Known-finding symptom: every mismatch is explained by 'column advanced by the UNESCAPED content length of earlier
    string pieces on the same line' (escape sequences make the source longer than the content)."""
    if "\r" in src or not r["ok"]:
        return False
    lines = src.split("\n")
    drift = {}
    saw = False
    for t in r["tokens"]:
        k = t["k"]
        if k in SYNTHETIC or k == "Illegal":
            continue
        if t["l"] < 1 or t["l"] > len(lines):
            return False
        line = lines[t["l"] - 1]
        d = drift.get(t["l"], 0)
        b = t["b"] + d
        if d:
            saw = True
        if k in ("StrLit", "StrInterpLeft", "StrInterpMid", "StrInterpRight"):
            q = STRING_START[k]
            if line[b:b + 1] != q:
                return False
            n_src = scan_string_src(line, b)
            if n_src is None:
                return False
            drift[t["l"]] = d + n_src - len(t["c"])
        elif k == "DocComment":
            if line[b:b + 1] not in "\"'":
                return False
        else:
            if line[b:b + len(t["c"])] != t["c"]:
                return False
    return saw or any(drift.values())


def judge_batch(ctx, rep, cases):
    resp, proc = ctx.vh_lines("lex", [{"src": c["src"]} for c in cases], timeout=600)
    if proc.timed_out:
        # bounded-progress rule: isolate the input that does not finish
        for c in cases:
            r1, p1 = ctx.vh_lines("lex", [{"src": c["src"]}], timeout=60)
            if p1.timed_out:
                r2, p2 = ctx.vh_lines("lex", [{"src": c["src"]}], timeout=240)
                if p2.timed_out:
                    rep.violation("hang", f"lexer did not finish within 240 s on {c['src']!r}", c)
                else:
                    rep.inconc("slow lex")
        return
    if len(resp) != len(cases):
        # the process died (abort/stack overflow): find the culprit one by one
        done = len(resp)
        culprit = cases[done] if done < len(cases) else None
        if culprit is not None:
            r1, p1 = ctx.vh_lines("lex", [{"src": culprit["src"]}], timeout=120)
            if len(r1) != 1:
                rep.violation("abort:" + (common.crash_signature(p1) or f"rc{p1.rc}"),
                              f"lexer process died on {culprit['src']!r}: {p1.serr[-200:]}", culprit)
            rest = cases[done + 1:]
            for k in range(done):
                judge_one(rep, cases[k], resp[k])
            if rest:
                judge_batch(ctx, rep, rest)
            return
        raise common.Inconclusive(f"vh lex answered {len(resp)}/{len(cases)}")
    for c, r in zip(cases, resp):
        judge_one(rep, c, r)


def judge_one(rep, c, r):
    src = c["src"]
    if "panic" in r:
        loc = r["panic"].split(": ")[0]
        rep.violation("panic:" + common._relsrc(loc), f"lexer panicked on {src!r}: {r['panic']}", c)
        return
    bad = check_stream(src, r)
    if bad is None:
        kinds = tuple(t["k"] for t in r["tokens"][:40])
        rep.ok(hash(kinds) if r["ok"] else None,
               {"src": src, "kinds": [t["k"] for t in r["tokens"]][:20], "ok": r["ok"]} if (r["ok"] and 20 < len(src) < 70) else None)
        rep.count("lexed_ok" if r["ok"] else "lexed_err")
        return
    sig, what = bad
    if sig.startswith("pos:") and drift_model_ok(src, r):
        rep.violation("pos:column-drift-after-escape",
                      f"{what}; all reported columns are explained by earlier escape sequences on the line being counted by "
                      f"their unescaped length", c)
    else:
        rep.violation(sig, what + f" [src={src!r}]", c)


def run(ctx, rep):
    rng = ctx.rng()
    cases = []
    files = corpus_files(ctx)
    texts = []
    for f in files:
        try:
            texts.append(open(f, encoding="utf-8").read())
        except (OSError, UnicodeDecodeError):
            pass
    for t in texts:
        cases.append({"src": t, "kind": "corpus"})
    n_soup = ctx.n(25000, 250000)
    for _ in range(n_soup):
        cases.append({"src": gen_soup(rng), "kind": "soup"})
    n_host = ctx.n(20000, 200000)
    for _ in range(n_host):
        cases.append({"src": gen_hostile(rng), "kind": "hostile"})
    per_file = ctx.n(40, 200)
    for t in texts:
        for cut in truncations(t, rng, per_file):
            cases.append({"src": cut, "kind": "trunc"})
    rep.extra["corpus_files"] = len(texts)
    rep.extra["cases_by_kind"] = {}
    for c in cases:
        rep.extra["cases_by_kind"][c["kind"]] = rep.extra["cases_by_kind"].get(c["kind"], 0) + 1
    common.run_parallel(rep, cases, lambda sr, part: judge_batch(ctx, sr, part), nparts=common.NCPU * 4)
    rep.min_evaluations = 5000


def replay(ctx, rep, case):
    judge_batch(ctx, rep, [case])
