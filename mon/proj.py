"""Generator of multi-module Erg projects (shared by C19 and C20) with a reference evaluation of the module graph."""
import os
import random


class Project:
    def __init__(self, names, dag, cyc, consts, shape, extras=None):
        self.names = names          # names[0] is the entry module
        self.dag = dag              # {i: [j...]}  i imports j, value of j used at top level (j > i)
        self.cyc = cyc              # {i: [j...]}  i imports j, j only used inside a function body (may close a cycle, may be i itself)
        self.consts = consts
        self.shape = shape
        self.extras = extras or {}  # {i: extra line (e.g. an injected warning / error)}
        self.members = []
        self.unused = {}            # {i: [j...]}  i imports j and never looks into it
        self.pad = {}               # {j: number of extra private function definitions (makes j's analysis slower)}
        self.cyc_uses_var = False   # cross-cycle accessors read the partner's function `.f` (pre-registered); True: its variable `.x`

    def x(self, i, memo=None):
        memo = {} if memo is None else memo
        if i not in memo:
            memo[i] = self.consts[i] + sum(self.x(j, memo) for j in self.dag.get(i, []))
        return memo[i]

    def source(self, i):
        n = self.names[i]
        lines = []
        for j in sorted(set(self.dag.get(i, []) + self.cyc.get(i, []))):
            lines.append(f'{self.names[j]} = import "{self.names[j]}"')
        for j in self.unused.get(i, []):
            lines.append(f'_u{j} = import "{self.names[j]}"')
        lines.append(f'print! "top {n}"')
        if i in self.extras:
            lines.append(self.extras[i])
        terms = [str(self.consts[i])] + [f"{self.names[j]}.x" for j in self.dag.get(i, [])]
        for k in range(self.pad.get(i, 0)):
            lines.append(f"pad{k}(a: Int, b: Int): Int = (a + {k}) * (b - {k}) + a * b // {k + 1} + abs(a - b)")
        if i != 0:
            lines.append(f".x: Int = {' + '.join(terms)}")
            lines.append(f".f(n: Int): Int = n + {self.consts[i]}")
            lines.append(f'.s: Str = "{n}"')
            for j in self.cyc.get(i, []):
                lines.append(f".g{j}(): Int = {self.names[j]}.{'x' if self.cyc_uses_var else 'f(2)'}")
        else:
            lines.append(f"x = {' + '.join(terms)}")
            lines.append('print! "val main", x')
            for j in sorted(set(self.dag.get(0, []))):
                lines.append(f'print! "val {self.names[j]}", {self.names[j]}.x, {self.names[j]}.f(1), {self.names[j]}.s')
            for j in self.cyc.get(0, []):
                lines.append(f'print! "cyc {self.names[j]}", {self.names[j]}.x')
            # call the cycle accessors of direct imports
            for j in sorted(set(self.dag.get(0, []))):
                for k in self.cyc.get(j, []):
                    lines.append(f'print! "g {self.names[j]} {self.names[k]}", {self.names[j]}.g{k}()')
        return "\n".join(lines) + "\n"

    def expected_lines(self):
        memo = {}
        out = {f"top {n}": 1 for n in self.names if self.reachable(self.names.index(n))}
        vals = [f"val main {self.x(0, memo)}"]
        for j in sorted(set(self.dag.get(0, []))):
            vals.append(f"val {self.names[j]} {self.x(j, memo)} {1 + self.consts[j]} {self.names[j]}")
        for j in sorted(set(self.dag.get(0, []))):
            for k in self.cyc.get(j, []):
                vals.append(f"g {self.names[j]} {self.names[k]} {self.x(k, memo) if self.cyc_uses_var else 2 + self.consts[k]}")
        return out, vals

    def reachable(self, t):
        seen, todo = set(), [0]
        while todo:
            i = todo.pop()
            if i in seen:
                continue
            seen.add(i)
            todo += self.dag.get(i, []) + self.cyc.get(i, []) + self.unused.get(i, [])
        return t in seen

    def reachable_set(self):
        return {i for i in range(len(self.names)) if self.reachable(i)}

    def write(self, d):
        os.makedirs(d, exist_ok=True)
        for i, n in enumerate(self.names):
            with open(os.path.join(d, ("main" if i == 0 else n) + ".er"), "w") as f:
                f.write(self.source(i))
        return os.path.join(d, "main.er")

    def has_cycle(self):
        return any(self.cyc.values())


def generate(seed, allow_cycles=True):
    r = random.Random(seed)
    n = r.randrange(2, 9)
    names = ["main"] + [f"m{i}" for i in range(1, n)]
    consts = [r.randrange(1, 50) for _ in range(n)]
    shape = r.choice(["chain", "diamond", "fan", "random", "random"] + (["cycle2", "cycle3", "self"] if allow_cycles else []))
    dag, cyc = {}, {}
    add = lambda m, i, j: m.setdefault(i, []).append(j) if j not in m.get(i, []) else None
    if shape == "chain":
        for i in range(n - 1):
            add(dag, i, i + 1)
    elif shape == "fan":
        for j in range(1, n):
            add(dag, 0, j)
        if n > 2:
            for j in range(1, n - 1):
                if r.random() < 0.5:
                    add(dag, j, n - 1)
    elif shape == "diamond":
        for j in range(1, n):
            add(dag, 0, j)
        for j in range(1, n - 1):
            add(dag, j, n - 1)
    else:
        for i in range(n - 1):
            add(dag, i, r.randrange(i + 1, n))
            for j in range(i + 1, n):
                if r.random() < 0.3:
                    add(dag, i, j)
    # make sure every module is reachable from main
    for j in range(1, n):
        if not any(j in v for v in dag.values()):
            add(dag, r.randrange(0, j), j)
    members = []
    if shape == "cycle2" and n >= 3:
        members = sorted(r.sample(range(1, n), 2))
    elif shape == "cycle3" and n >= 4:
        members = sorted(r.sample(range(1, n), 3))
    elif shape == "self":
        members = [r.randrange(1, n)]
    if members:
        # cycle members use each other only inside function bodies and have no top-level (dag) imports of their own,
        # so the only cycles are the intended ones; outsiders may import a member and use its value at top level
        for m in members:
            dag.pop(m, None)
        if r.random() < 0.5:
            # single entry: only one outsider imports one member
            for i in list(dag):
                dag[i] = [j for j in dag[i] if j not in members]
            add(dag, r.choice([i for i in range(0, n) if i not in members]), members[0])
        elif not any(m in v for m in members for v in dag.values()):
            add(dag, 0, members[0])
        for u, v in zip(members, members[1:] + members[:1]):
            add(cyc, u, v)
    # re-establish reachability after removing edges
    p = Project(names, dag, cyc, consts, shape)
    for j in range(1, n):
        if not p.reachable(j) and j not in members:
            add(dag, 0, j)
    p.members = members
    if r.random() < 0.35:
        # a module that is only imported, never looked into, by a non-root module (its analysis thread has no waiting consumer)
        importer = r.randrange(1, n) if n > 1 else 0
        if importer not in members:
            p.names.append(f"m{n}")
            p.consts.append(r.randrange(1, 50))
            p.unused[importer] = [n]
            p.pad[n] = r.choice([0, 20, 60])
    return p
