"""C26 Runtime classes agree with Python and with their declared types."""
import json
import os

from . import common

LEVEL = "exploration"
RULE = ("the REAL runtime modules (lib/core of the working tree) are imported in CPython 3.7..3.11; random operand pairs from wide grids "
        "(ints to +-2**70, floats incl. signed zero, strings, mixed wrapper/plain operands) go through every arithmetic and comparison "
        "operator of Nat/Int/Float plus the declared methods of Nat/Int/Str/Bool/List and the mutable naturals; oracle: (1) the "
        "wrapped builtin computes the reference value / exception class, (2) the result is an instance of the promised class or a "
        "plain builtin that the promised class accepts unchanged (Nat op Nat: Nat, Nat op Int: Int, ...), (3) no Nat (or NatMut "
        "content) is ever negative. distinct = distinct (left class, operator, right class) combinations with agreeing results")
MANIFEST = {
    "text": "Hundreds of thousands of operations per run on the real classes inside each supported interpreter, each compared with "
            "the builtin it wraps and with the class its declaration promises.",
    "technique": "differential monitor inside CPython: runtime wrapper classes vs the builtins they wrap + class-promise invariant",
    "note": "promised classes are taken from the property text/core.d (table in mon/c26_py.py); plain builtin results are accepted where the generated code re-wraps",
}


def run(ctx, rep):
    core = os.path.join(ctx.erg_home, "lib", "core")
    versions = ["3.11", ["3.7", "3.8", "3.9", "3.10"][ctx.seed % 4]] if ctx.quick else ["3.7", "3.8", "3.9", "3.10", "3.11"]
    n = ctx.n(120000, 3000000)
    script = os.path.join(common.VERIF, "mon", "c26_py.py")

    def one(job):
        v, shard = job
        return v, ctx.run([common.PY_VERSIONS[v], script, core, f"{ctx.seed}:{v}:{shard}", str(n // 8)], timeout=3000)
    jobs = [(v, s) for v in versions for s in range(8)]
    for v, p in common.pmap(one, jobs):
        if p.rc != 0:
            if "Error" in p.serr and ("import" in p.serr.lower() or "Traceback" in p.serr):
                rep.violation(f"import-failed:{v}", f"the runtime modules cannot be imported/used under {v}: {p.serr[-300:]}", {"version": v})
                continue
            raise common.Inconclusive(f"c26_py failed under {v}: {p.serr[-300:]}")
        doc = json.loads(p.sout)
        rep.evaluations += doc["ops"]
        for k, cls in doc["classes_seen"].items():
            rep.distinct.add((k, cls))
        for sig, (cnt, ex) in doc["violations"].items():
            rep.violation(sig, f"[CPython {v}] {ex} ({cnt} occurrences in this shard)", {"version": v, "sig": sig, "example": ex})
            rep.evaluations -= 1
    rep.sample({"operations": rep.evaluations, "versions": versions})
    rep.min_evaluations = 10000


def replay(ctx, rep, case):
    run(ctx, rep)
