"""Runs under one CPython: argv[1] = JSON file {module: [names]}; prints {module: {"import_error": str|None, "missing": [names]}}."""
import importlib, json, sys, warnings
warnings.simplefilter("ignore")
req = json.load(open(sys.argv[1]))
out = {}
for mod, names in req.items():
    try:
        m = importlib.import_module(mod)
    except BaseException as e:
        out[mod] = {"import_error": type(e).__name__, "missing": names}
        continue
    out[mod] = {"import_error": None, "missing": [n for n in names if not hasattr(m, n)]}
print(json.dumps(out))
