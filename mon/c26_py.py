"""Runs under a target CPython with ERG core dir as argv[1], seed argv[2], n argv[3]: compares the REAL runtime classes with
the builtins they wrap.  Prints JSON {"ops": n, "violations": {sig: [count, example]}, "classes_seen": {...}}."""
import json, operator, random, sys

core = sys.argv[1]
sys.path.insert(0, core)
from _erg_nat import Nat, NatMut
from _erg_int import Int, IntMut
from _erg_float import Float
from _erg_str import Str
from _erg_bool import Bool
from _erg_list import List

rng = random.Random(sys.argv[2])
N = int(sys.argv[3])
viol = {}
ops_done = 0
seen = {}


def v(sig, ex):
    e = viol.setdefault(sig, [0, ex])
    e[0] += 1


BIN = {"+": operator.add, "-": operator.sub, "*": operator.mul, "//": operator.floordiv, "%": operator.mod, "**": operator.pow,
       "/": operator.truediv, "==": operator.eq, "!=": operator.ne, "<": operator.lt, "<=": operator.le, ">": operator.gt, ">=": operator.ge}
NATS = [0, 1, 2, 3, 7, 10, 255, 65536, 2**31, 2**63, 2**64, 2**70]
INTS = NATS + [-1, -2, -3, -7, -255, -2**31, -2**70]
FLOATS = [0.0, -0.0, 0.5, -0.5, 1.5, 2.0, -3.25, 1e10, 1e-5]
# the class each (left class, operator, right class) promises, from the property text / core.d declarations
PROMISE = {("Nat", "+", "Nat"): Nat, ("Nat", "*", "Nat"): Nat, ("Nat", "//", "Nat"): Nat, ("Nat", "%", "Nat"): Nat, ("Nat", "**", "Nat"): Nat,
           ("Nat", "-", "Nat"): Int,
           ("Nat", "+", "Int"): Int, ("Nat", "-", "Int"): Int, ("Nat", "*", "Int"): Int,
           ("Int", "+", "Nat"): Int, ("Int", "-", "Nat"): Int, ("Int", "*", "Nat"): Int,
           ("Int", "+", "Int"): Int, ("Int", "-", "Int"): Int, ("Int", "*", "Int"): Int, ("Int", "//", "Int"): Int, ("Int", "%", "Int"): Int,
           ("Float", "+", "Float"): Float, ("Float", "-", "Float"): Float, ("Float", "*", "Float"): Float, ("Float", "/", "Float"): Float}
BASE = {Nat: int, Int: int, Float: float}


def wrap(kind, x):
    return {"Nat": Nat, "Int": Int, "Float": Float, "int": int, "float": float}[kind](x)


def same_value(a, b):
    if isinstance(b, float) and b != b:
        return isinstance(a, float) and a != a
    if isinstance(a, bool) != isinstance(b, bool) and (isinstance(a, bool) or isinstance(b, bool)):
        return a == b
    return a == b and (isinstance(a, float) == isinstance(b, float) or not isinstance(b, float)) and \
        (not isinstance(b, float) or str(float(a)) == str(b))


def check_bin(lk, op, rk, a, b):
    global ops_done
    ops_done += 1
    f = BIN[op]
    try:
        want = f(a, b)
        wexc = None
    except Exception as e:
        want, wexc = None, type(e).__name__
    try:
        got = f(wrap(lk, a), wrap(rk, b))
        gexc = None
    except Exception as e:
        got, gexc = None, type(e).__name__ + ": " + str(e)[:50]
    ex = f"{lk}({a!r}) {op} {rk}({b!r})"
    if wexc or gexc:
        if (gexc or "").split(":")[0] != (wexc or ""):
            v(f"raises:{lk}{op}{rk}:{(gexc or 'nothing').split(':')[0]}-vs-{wexc}", f"{ex}: wrapper {gexc or repr(got)}, builtin {wexc or repr(want)}")
        return
    if not same_value(got, want):
        v(f"value:{lk}{op}{rk}", f"{ex} = {got!r}, builtin gives {want!r}")
        return
    seen[f"{lk}{op}{rk}"] = type(got).__name__
    if isinstance(got, Nat) and int(got) < 0:
        v(f"negative-nat:{lk}{op}{rk}", f"{ex} is a negative Nat {got!r}")
    P = PROMISE.get((lk, op, rk))
    if P is not None and op not in ("==", "!=", "<", "<=", ">", ">="):
        if not (isinstance(got, P) or type(got) is BASE[P]):
            v(f"class:{lk}{op}{rk}:{type(got).__name__}", f"{ex} is a {type(got).__name__}, promised {P.__name__}")
        elif type(got) is BASE[P]:
            try:
                if P(got) != got:
                    v(f"class:{lk}{op}{rk}:unacceptable", f"{ex} = {got!r} is not accepted unchanged by {P.__name__}")
            except Exception as e:
                v(f"class:{lk}{op}{rk}:rejected", f"{ex} = {got!r} is rejected by {P.__name__}: {e}")


for _ in range(N):
    r = rng.random()
    if r < 0.7:
        lk = rng.choice(["Nat", "Int", "Nat", "Int", "int"])
        rk = rng.choice(["Nat", "Int", "int", "Nat", "Int"])
        if lk == "int" and rk == "int":
            rk = "Nat"
        a = rng.choice(NATS if lk == "Nat" else INTS)
        b = rng.choice(NATS if rk == "Nat" else INTS)
        op = rng.choice(list(BIN))
        if op == "**":
            b = rng.choice([0, 1, 2, 3]) if rk == "Nat" else rng.choice([0, 1, 2, 3, -1, -2])
            a = rng.choice([0, 1, 2, 3, 7, 10, -2, -3]) if lk != "Nat" else rng.choice([0, 1, 2, 3, 7, 10])
        check_bin(lk, op, rk, a, b)
    else:
        lk, rk = rng.choice([("Float", "Float"), ("Float", "Nat"), ("Nat", "Float"), ("Float", "Int"), ("Int", "Float"), ("Float", "float"), ("float", "Float")])
        a = rng.choice(FLOATS) if "loat" in lk else rng.choice(NATS[:8] if lk == "Nat" else INTS[:8] + [-1, -7])
        b = rng.choice(FLOATS) if "loat" in rk else rng.choice(NATS[:8] if rk == "Nat" else INTS[:8] + [-1, -7])
        op = rng.choice(["+", "-", "*", "/", "//", "%", "<", "<=", ">", ">=", "==", "!="])
        check_bin(lk, op, rk, a, b)
# unary and methods
for a in INTS:
    for name, f in (("neg", operator.neg), ("pos", operator.pos), ("abs", abs)):
        ops_done += 1
        got, want = f(Int(a)), f(a)
        if got != want:
            v(f"value:Int.{name}", f"{name}(Int({a})) = {got!r} vs {want!r}")
    ops_done += 2
    if Int(a).succ() != a + 1 or Int(a).pred() != a - 1:
        v("value:Int.succ/pred", f"Int({a})")
for a in NATS:
    ops_done += 2
    if not isinstance(+Nat(a), Nat) or int(+Nat(a)) != a:
        v("value:Nat.pos", f"+Nat({a})")
    if Nat(a).saturating_sub(Nat(3)) != max(a - 3, 0):
        v("value:Nat.saturating_sub", f"Nat({a}).saturating_sub(3) = {Nat(a).saturating_sub(Nat(3))!r}")
# mutable naturals must stay natural
for start, steps in ((0, 1), (1, 2), (3, 5)):
    m = NatMut(Nat(start))
    ops_done += 1
    try:
        for _ in range(steps):
            m.dec()
        if int(m.value) < 0 or (isinstance(m.value, Nat) and int(m.value) < 0):
            v("negative-nat:NatMut.dec", f"NatMut({start}) after {steps} x dec!() holds {int(m.value)}")
    except Exception as e:
        pass   # refusing to go below zero is fine
# strings and bools and lists: agreement with the builtins
STRS = ["", "a", "abc", "héllo", "日本", "a,b", "  x "]
for s in STRS:
    for t in STRS[:4]:
        ops_done += 4
        if Str(s) + Str(t) != s + t or type(Str(s) + Str(t)) is not Str and not isinstance(Str(s) + Str(t), str):
            v("value:Str+Str", f"{s!r}+{t!r}")
        if (Str(s) == Str(t)) != (s == t) or (Str(s) < Str(t)) != (s < t):
            v("value:Str-compare", f"{s!r} vs {t!r}")
    for n in (0, 1, 3):
        ops_done += 1
        if Str(s) * Nat(n) != s * n:
            v("value:Str*Nat", f"{s!r}*{n}")
    ops_done += 3
    if len(Str(s)) != len(s) or Str(s).upper() != s.upper() or Str(s).strip() != s.strip():
        v("value:Str-methods", f"{s!r}")
for a in (True, False):
    for b in (True, False):
        ops_done += 4
        for name, f in (("and", operator.and_), ("or", operator.or_), ("xor", operator.xor)):
            if bool(f(Bool(a), Bool(b))) != f(a, b):
                v(f"value:Bool.{name}", f"{a} {name} {b}")
    if Bool(a).invert() != (not a):
        v("value:Bool.invert", f"{a}")
for l in ([], [1], [1, 2, 3]):
    ops_done += 3
    if List(l) + List([9]) != l + [9] or len(List(l)) != len(l) or (l and List(l)[0] != l[0]):
        v("value:List", f"{l}")
print(json.dumps({"ops": ops_done, "violations": viol, "classes_seen": seen, "version": list(sys.version_info[:2])}))
