"""C06 Subtyping is a preorder with the documented bottom, top and tower."""
import itertools
import random
import re

from . import common

LEVEL = "exploration"
RULE = ("types elaborated by the real compiler from source specs (`tspecN(x: SPEC) = x`, parameter type read back) over built-in "
        "classes and traits, literal enums, intervals, refinements, unions, intersections, List/Tuple/Set/Dict of those to nesting "
        "depth 2; the full matrix supertype_of(T_j, T_i) of the compiler's own Context is observed (`vh subtype`). Oracle: "
        "reflexivity on every type, transitivity on every triple, Never <: T <: Obj, the tower Bool <: Nat <: Int <: Ratio <: "
        "Float <: Complex, T <: (T or U), U <: (T or U), (T and U) <: T, (T and U) <: U, enum/singleton below the class of its "
        "values, covariance of List/Tuple in an immutable element, and soundness against a small value universe: if S <: T is "
        "reported then every sample value of S (per an independent denotation of the spec) is a value of T. "
        "distinct = distinct (law, shape of T, shape of U) triples that were exercised")
MANIFEST = {
    "text": "All law instances over ~200 elaborated types per shard (millions of triples) are evaluated on the compiler's own subtype relation.",
    "technique": "runtime monitor of the compiler's subtype relation on generated types: algebraic-law oracle + value-universe denotation oracle",
    "note": "types come only from source specs (raw constructors are not normalised); specs the compiler rejects are skipped",
}

CLASSES = ["Bool", "Nat", "Int", "Ratio", "Float", "Complex", "Str", "NoneType", "Never", "Obj"]
TRAITS = ["Num", "Ord", "Eq", "Hash", "Show"]
ENUMS = ["{1}", "{1, 2}", "{0, 5, 10}", "{-1, 0}", "{-3}", '{"a"}', '{"a", "b"}', "{True}", "{1.5}", "{2, 3}"]
INTERVALS = ["0..10", "-5..5", "3..3", "0..1"]
REFINES = ["{I: Int | I >= 0}", "{I: Nat | I <= 3}", "{I: Int | I >= 2 and I <= 8}", "{I: Int | I <= -1}", "{I: Int | I == 4}"]
TOWER = ["Bool", "Nat", "Int", "Ratio", "Float", "Complex"]
UNIVERSE = [-7, -3, -1, 0, 1, 2, 3, 4, 5, 8, 10, 11, 1.5, -0.5, "a", "b", "zz", None, (), (1,), (1, 2), (-1,), ("a",), (1.5,), (0, "a"), ((1,),), (3, 4)]


def den_atom(spec):
    """-> python predicate on a universe value, or None when the spec has no modelled denotation"""
    isint = lambda v: isinstance(v, int) and not isinstance(v, bool)
    table = {
        "Nat": lambda v: isint(v) and v >= 0, "Int": isint, "Ratio": isint, "Float": lambda v: isint(v) or isinstance(v, float),
        "Complex": lambda v: isint(v) or isinstance(v, float), "Str": lambda v: isinstance(v, str), "NoneType": lambda v: v is None,
        "Never": lambda v: False, "Obj": lambda v: True,
    }
    if spec in table:
        return table[spec]
    if spec in ENUMS and "True" not in spec:
        vals = eval("[" + spec[1:-1] + "]")
        return lambda v: any(type(v) is type(x) and v == x for x in vals)
    m = re.match(r"^(-?\d+)(\.\.<?)(-?\d+)$", spec)
    if m:
        lo, op, hi = int(m.group(1)), m.group(2), int(m.group(3))
        return lambda v: isint(v) and lo <= v and (v < hi if op == "..<" else v <= hi)
    if spec in REFINES:
        base = re.match(r"\{I: (\w+) \| (.*)\}", spec)
        body = base.group(2)
        nat = base.group(1) == "Nat"
        return lambda v: isint(v) and (v >= 0 or not nat) and eval(body, {"I": v})
    return None


class T:
    def __init__(self, spec, shape, den, parts=None, kind="atom"):
        self.spec, self.shape, self.den, self.parts, self.kind = spec, shape, den, parts, kind


def atoms():
    out = [T(c, "class", den_atom(c)) for c in CLASSES] + [T(t, "trait", None) for t in TRAITS]
    out += [T(e, "enum", den_atom(e)) for e in ENUMS] + [T(i, "interval", den_atom(i)) for i in INTERVALS]
    out += [T(r, "refinement", den_atom(r)) for r in REFINES]
    return out


def compound(r, pool, depth):
    k = r.choice(["or", "or", "and", "List", "ListN", "Tuple", "Set", "Dict"])
    pool = [t for t in pool if t.shape != "interval"]     # `a..b` nested in another spec is read as a Range value, not as a type
    a, b = r.choice(pool), r.choice(pool)
    sh = lambda t: t.shape if depth == 1 else "nested"
    if k == "or":
        den = (lambda v: a.den(v) or b.den(v)) if a.den and b.den else None
        return T(f"({a.spec}) or ({b.spec})", f"or[{sh(a)},{sh(b)}]", den, (a, b), "or")
    if k == "and":
        den = (lambda v: a.den(v) and b.den(v)) if a.den and b.den else None
        return T(f"({a.spec}) and ({b.spec})", f"and[{sh(a)},{sh(b)}]", den, (a, b), "and")
    if k == "List":
        den = (lambda v: isinstance(v, tuple) and all(a.den(x) for x in v)) if a.den else None
        return T(f"List({a.spec})", f"List[{sh(a)}]", den, (a,), "List")
    if k == "ListN":
        n = r.choice([1, 2])
        den = (lambda v: isinstance(v, tuple) and len(v) == n and all(a.den(x) for x in v)) if a.den else None
        return T(f"List({a.spec}, {n})", f"ListN[{sh(a)}]", den, (a,), "ListN" + str(n))
    if k == "Tuple":
        return T(f"Tuple([{a.spec}, {b.spec}])", f"Tuple[{sh(a)},{sh(b)}]", None, (a, b), "Tuple")
    if k == "Set":
        return T(f"Set({a.spec})", f"Set[{sh(a)}]", None, (a,), "Set")
    return T(f"Dict({{Str: {a.spec}}})", f"Dict[{sh(a)}]", None, (a,), "Dict")


def build_types(r, n):
    base = atoms()
    out = list(base)
    d1 = []
    while len(out) < n:
        if d1 and r.random() < 0.35:
            t = compound(r, d1 + base, 2)
        else:
            t = compound(r, base, 1)
            d1.append(t)
        out.append(t)
    return out


def check_shard(ctx, rep, seed, n):
    r = random.Random(seed)
    types = build_types(r, n)
    resp, proc = ctx.vh_lines("subtype", [{"specs": [t.spec for t in types]}], timeout=1800)
    if proc.timed_out or not resp or "matrix" not in resp[0]:
        rep.inconc(f"vh subtype did not answer ({common.crash_signature(proc) or proc.rc}; {str(resp)[:200]})")
        return
    shown, M = resp[0]["types"], resp[0]["matrix"]
    live = [i for i, s in enumerate(shown) if s is not None and s != "Failure"]
    rep.count("types_elaborated", len(live))
    rep.count("specs_rejected", len(types) - len(live))
    idx = {t.spec: i for i, t in enumerate(types)}
    sub = lambda i, j: M[i][j]      # T_i <: T_j
    for i, j, where in resp[0].get("panics", []):
        site = common._relsrc(where.split(": ")[0])
        rep.violation(f"panic:{site}", f"subtype_of({types[i].spec}, {types[j].spec}) panicked at {where[:200]}", {"specs": [types[i].spec, types[j].spec], "law": "no-panic"})

    def viol(law, i, j, text, extra=None):
        case = {"specs": [types[i].spec, types[j].spec] + ([types[extra].spec] if extra is not None else []), "law": law}
        kind = lambda t: t.kind if t.kind != "atom" else t.shape
        rep.violation(f"{law}:{kind(types[i])}:{kind(types[j])}", f"{law}: {text}  [{types[i].spec} shown as {shown[i]}; {types[j].spec} shown as {shown[j]}]", case)

    for i in live:
        t = types[i]
        if sub(i, i) is not True:
            viol("reflexivity", i, i, f"{t.spec} is not a subtype of itself")
        else:
            rep.ok(("refl", t.shape))
        nv, ob = idx["Never"], idx["Obj"]
        if sub(nv, i) is not True:
            viol("bottom", nv, i, f"Never is not below {t.spec}")
        else:
            rep.ok(("bottom", t.shape))
        if sub(i, ob) is not True:
            viol("top", i, ob, f"{t.spec} is not below Obj")
        else:
            rep.ok(("top", t.shape))
        if t.kind == "or":
            for p in t.parts:
                pi = idx[p.spec]
                if pi in live:
                    if sub(pi, i) is not True:
                        viol("union-upper-bound", pi, i, f"{p.spec} is not a subtype of {t.spec}")
                    else:
                        rep.ok(("union", p.shape, t.shape))
        if t.kind == "and":
            for p in t.parts:
                pi = idx[p.spec]
                if pi in live:
                    if sub(i, pi) is not True:
                        viol("intersection-lower-bound", i, pi, f"{t.spec} is not a subtype of {p.spec}")
                    else:
                        rep.ok(("intersection", t.shape, p.shape))
        if t.kind in ("List", "ListN1", "ListN2", "Tuple"):
            # covariance: List(A) <: List(B) when A <: B (same constructor, same length)
            for j in live:
                u = types[j]
                if u.kind == t.kind and j != i and all(idx[a.spec] in live and idx[b.spec] in live and sub(idx[a.spec], idx[b.spec]) is True
                                                         for a, b in zip(t.parts, u.parts)):
                    if sub(i, j) is not True:
                        viol("covariance", i, j, f"{t.spec} is not a subtype of {u.spec} although the elements are")
                    else:
                        rep.ok(("covariance", t.shape, u.shape))
    # tower
    for a, b in zip(TOWER, TOWER[1:]):
        if sub(idx[a], idx[b]) is not True:
            viol("tower", idx[a], idx[b], f"{a} is not a subtype of {b}")
        else:
            rep.ok(("tower", a, b))
    # enum below the class of its values
    for spec, cls in [("{1}", "Nat"), ("{1, 2}", "Nat"), ("{0, 5, 10}", "Int"), ("{-1, 0}", "Int"), ("{-3}", "Int"), ('{"a"}', "Str"),
                      ('{"a", "b"}', "Str"), ("{True}", "Bool"), ("{1.5}", "Float"), ("{2, 3}", "Float"), ("0..10", "Nat"), ("-5..5", "Int"), ("3..3", "Nat")]:
        if sub(idx[spec], idx[cls]) is not True:
            viol("enum-below-class", idx[spec], idx[cls], f"{spec} is not a subtype of {cls}")
        else:
            rep.ok(("enum-below-class", spec, cls))
    # transitivity over all triples (bitset rows)
    rows = {i: sum(1 << j for j in live if M[i][j] is True) for i in live}
    ntri = 0
    for i in live:
        for j in live:
            if M[i][j] is True and j != i:
                missing = rows[j] & ~rows[i]
                ntri += bin(rows[j]).count("1")
                if missing:
                    k = (missing & -missing).bit_length() - 1
                    viol("transitivity", i, k, f"{types[i].spec} <: {types[j].spec} and {types[j].spec} <: {types[k].spec} but not {types[i].spec} <: {types[k].spec}", j)
    rep.count("transitivity_triples", ntri)
    rep.ok(("transitivity", len(live)))
    # soundness against the value universe
    for i in live:
        if not types[i].den:
            continue
        vi = [v for v in UNIVERSE if types[i].den(v)]
        for j in live:
            if types[j].den and M[i][j] is True:
                bad = [v for v in vi if not types[j].den(v)]
                if bad:
                    viol("unsound", i, j, f"{types[i].spec} <: {types[j].spec} is reported, but {bad[0]!r} is a value of the former and not of the latter")
                else:
                    rep.ok(("sound", types[i].shape, types[j].shape))
                    rep.count("soundness_pairs")


def run(ctx, rep):
    shards = ctx.n(8, 64)
    n = ctx.n(160, 260)
    common.run_parallel(rep, [f"C06:{ctx.seed}:{k}" for k in range(shards)], lambda sr, part: [check_shard(ctx, sr, s, n) for s in part], nparts=shards)
    rep.min_evaluations = 1000


def replay(ctx, rep, case):
    specs = CLASSES + [s for s in case["specs"] if s not in CLASSES]
    resp, proc = ctx.vh_lines("subtype", [{"specs": specs}], timeout=600)
    M = resp[0]["matrix"]
    i = [specs.index(s) for s in case["specs"]]
    law = case["law"]
    holds = {"reflexivity": lambda: M[i[0]][i[0]], "bottom": lambda: M[i[0]][i[1]], "top": lambda: M[i[0]][i[1]],
             "transitivity": lambda: M[i[0]][i[1]], "unsound": lambda: not M[i[0]][i[1]], "no-panic": lambda: M[i[0]][i[1]] != "panic" or None}.get(law, lambda: M[i[0]][i[1]])()
    if holds is True:
        rep.ok((law,))
    else:
        rep.violation(f"{law}:replay", f"{law} fails for {case['specs']}", case)
