"""C27 Stdlib declarations name attributes that really exist (exhaustive)."""
import ast
import glob
import json
import os

from . import common

LEVEL = "exploration"
RULE = ("exhaustive: every top-level declaration of every bundled pystd/*.d.er file, parsed by the REAL parser (`vh pystd`), mapped to "
        "the Python name the declaration gives it (`.name: T` -> name without a trailing `!`, `.Name = 'pyname': T` -> pyname); the "
        "name must exist on the imported module in at least one of CPython 3.7..3.13 installed here, or be defined in some "
        "platform/version branch of the module's typeshed stub (the .pyi is walked through every `if sys.platform/version_info` arm). "
        "distinct = distinct (module, name) pairs found to exist")
MANIFEST = {
    "text": "The space is finite (173 files, about 2 500 names) and is enumerated completely in every run against seven interpreters and "
            "the bundled typeshed stubs.",
    "technique": "exhaustive differential monitor: declared names (real parser) vs hasattr in CPython 3.7-3.13 and typeshed stubs",
    "note": "typeshed stubs (typeshed_client in the tooling venv) stand in for platforms that are not installed; a module no interpreter can import and typeshed does not know is reported per module",
}
TYPESHED = "/opt/veriftools/pyvenv/lib/python3.11/site-packages/typeshed_client/typeshed"


def module_name(path, root):
    rel = os.path.relpath(path, root)
    parts = rel.split(os.sep)
    parts = [p[:-2] if p.endswith(".d") else p for p in parts]
    last = parts[-1]
    if last.endswith(".d.er"):
        last = last[:-5]
    parts[-1] = last
    if parts[-1] == "__init__":
        parts = parts[:-1]
    return ".".join(parts)


def stub_names(mod):
    """All names bound anywhere in the module's stub, through every conditional branch."""
    base = os.path.join(TYPESHED, *mod.split("."))
    for cand in (base + ".pyi", os.path.join(base, "__init__.pyi")):
        if os.path.exists(cand):
            try:
                tree = ast.parse(open(cand, encoding="utf-8").read())
            except SyntaxError:
                return None
            names = set()

            def walk(body):
                for n in body:
                    if isinstance(n, (ast.FunctionDef, ast.AsyncFunctionDef, ast.ClassDef)):
                        names.add(n.name)
                    elif isinstance(n, ast.Assign):
                        for t in n.targets:
                            for x in ast.walk(t):
                                if isinstance(x, ast.Name):
                                    names.add(x.id)
                    elif isinstance(n, ast.AnnAssign) and isinstance(n.target, ast.Name):
                        names.add(n.target.id)
                    elif isinstance(n, (ast.Import, ast.ImportFrom)):
                        for a in n.names:
                            names.add((a.asname or a.name).split(".")[0])
                    elif isinstance(n, ast.If):
                        walk(n.body)
                        walk(n.orelse)
                    elif isinstance(n, (ast.Try,)):
                        walk(n.body)
                        walk(n.orelse)
                        walk(n.finalbody)
                    elif isinstance(n, (ast.With, ast.For, ast.While)):
                        walk(n.body)
            walk(tree.body)
            return names
    return None


def run(ctx, rep):
    root = os.path.join(ctx.repo, "crates", "erg_compiler", "lib", "pystd")
    files = sorted(glob.glob(os.path.join(root, "**", "*.d.er"), recursive=True))
    decls = {}

    def parse(f):
        p = ctx.run([ctx.vh, "pystd", f], timeout=120)
        try:
            return f, json.loads(p.sout)
        except Exception:
            return f, {"harness_error": p.serr[-200:]}
    for f, r in common.pmap(parse, files):
        mod = module_name(f, root)
        if "panic" in r or "parse_errors" in r or "harness_error" in r:
            rep.violation(f"unparsable:{mod}", f"declaration file {os.path.relpath(f, root)} does not parse: {str(r)[:200]}", {"file": f})
            continue
        for d in r["decls"]:
            if not d.get("public"):
                continue
            if d["form"] == "asc":
                if d.get("op") != ":":
                    continue        # `.X <: Y` states a subtype relation of an already declared name
                py = d["name"].rstrip("!")
            elif d["form"] == "def" and d.get("body") == "alias":
                py = d["alias"].strip("'").rstrip("!")
            else:
                continue
            decls.setdefault(mod, []).append((d["name"], py))
    req = {m: sorted({py for _, py in ns}) for m, ns in decls.items()}
    reqfile = os.path.join(ctx.scratch, "req.json")
    json.dump(req, open(reqfile, "w"))
    exists = {m: set() for m in req}
    importable = {m: False for m in req}
    for v in ["3.7", "3.8", "3.9", "3.10", "3.11", "3.12", "3.13"]:
        p = ctx.run([common.PY_VERSIONS[v], os.path.join(common.VERIF, "mon", "c27_py.py"), reqfile], timeout=600)
        if p.rc != 0:
            raise common.Inconclusive(f"attribute probe failed under {v}: {p.serr[-200:]}")
        res = json.loads(p.sout.strip().splitlines()[-1])
        for m, r in res.items():
            if r["import_error"] is None:
                importable[m] = True
                exists[m] |= set(req[m]) - set(r["missing"])
    for m, names in req.items():
        stubs = stub_names(m)
        if not importable[m] and stubs is None:
            rep.violation(f"module-unknown:{m}", f"no installed interpreter can import `{m}` and typeshed has no stub for it", {"module": m})
            continue
        for n in names:
            if n in exists[m]:
                rep.ok((m, n), {"module": m, "name": n} if len(rep.samples) < 4 else None)
            elif stubs is not None and n in stubs:
                rep.ok((m, n))
                rep.count("found_only_in_typeshed")
            else:
                erg = [e for e, py in decls[m] if py == n][0]
                rep.violation(f"missing:{m}.{n}", f"`{m}.d.er` declares `.{erg}` (Python name `{n}`), which no CPython 3.7-3.13 here has and "
                              f"no branch of the typeshed stub defines", {"module": m, "name": n})
    rep.exhaustive = True
    rep.extra["files"] = len(files)
    rep.extra["modules"] = len(req)
    rep.min_evaluations = 1000


def replay(ctx, rep, case):
    run(ctx, rep)
