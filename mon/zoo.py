"""A zoo of syntactic constructs beyond the Frag fragment (match arms, records, collections, classes, patterns, mutation,
keyword/default arguments), used by crash monitoring (C07): well-formed programs, some ill-typed on purpose."""
import random

LITS = ["1", "0", "(-3)", '"s"', "1.5", "True", "[1, 2]", "(1, 2)", "None"]
ARMS = ['0 -> "zero"', '_ -> "other"', '(a, b) -> "pair"', '() -> "none"', '(a := 1) -> "dflt"', 'i: Int -> "int"', 's: Str -> s',
        '[a, b] -> "two"', '(a, b): (Int, Int) -> "tup"', '1 -> "one"', '"s" -> "str"', 'n: Nat -> "nat"', '(a, b, c) -> "three"',
        'True -> "t"', '1.5 -> "f"', '{x; y} -> "rec"', '_: {1, 2} -> "enum"']
RECORDS = ["{=}", "{.x = 1}", '{.x = 1; .y = "a"}', "{x = 1}", "{.x = {=}}", "{.x = {.y = 1}}", "{.f = (a: Int) -> a}"]
COLLS = ["[]", "[1]", "[1; 3]", "[1, \"a\"]", "()", "(1,)", "{1, 2}", "{1; 2}", '{"a": 1}', "{:}", '{"a": 1, 2: "b"}', "1..3", "1..<3", "[[1], []]",
         "{(1, 2)}", "[i * 2 | i <- 1..3]" , "{1}", "((1, 2), 3)"]


def snippets(r, k):
    """returns a list of (kind, lines) with names made unique by suffix k"""
    s = str(k)
    lit = r.choice(LITS)
    rec = r.choice(RECORDS)
    coll = r.choice(COLLS)
    n_arms = r.choice([1, 2, 2, 3])
    arms = [r.choice(ARMS) for _ in range(n_arms)]
    out = [
        ("match-block", [f"x{s} = {lit}", f"y{s} = match x{s}:"] + ["    " + a for a in arms] + [f"print! y{s}"]),
        ("match-inline", [f"x{s} = {lit}", f"y{s} = match x{s}, {arms[0]}", f"print! y{s}"]),
        ("match-in-func", [f"f{s}(v) = match v:"] + ["    " + a for a in arms] + [f"print! f{s}({lit})"]),
        ("record-value", [f"r{s} = {rec}", f"print! r{s}"]),
        ("record-access", [f"r{s} = {rec}", f"print! r{s}.x"]),
        ("record-arg", [f"g{s} v = v", f"print! g{s}({rec})"]),
        ("record-in-func", [f"h{s}() =", f"    e{s} = {rec}", f"    e{s}", f"print! h{s}()"]),
        ("record-nested", [f"r{s} = {rec}", f"q{s} = {{.z = r{s}; .w = {lit}}}", f"print! q{s}.z"]),
        ("collection", [f"c{s} = {coll}", f"print! c{s}"]),
        ("collection-len", [f"c{s} = {coll}", f"print! len(c{s})"]),
        ("collection-index", [f"c{s} = {coll}", f"print! c{s}[0]"]),
        ("collection-in", [f"print! {lit} in {coll}"]),
        ("collection-for", [f"for! {coll}, e{s} =>", f"    print! e{s}"]),
        ("tuple-pattern", [f"(a{s}, b{s}) = {r.choice(['(1, 2)', '(1, 2, 3)', '[1, 2]', lit])}", f"print! a{s}"]),
        ("list-pattern", [f"[a{s}, b{s}] = {r.choice(['[1, 2]', '[1]', '(1, 2)', lit])}", f"print! b{s}"]),
        ("record-pattern", [f"{{x{s}; y{s}}} = {{x{s} = 1; y{s} = 2}}", f"print! x{s}"]),
        ("class", [f"C{s} = Class {{.x = Int}}", f"C{s}.", f"    get self = self.x", f"    add self, o: {r.choice(['Int', 'C' + s, 'Str'])} = self.x", f"c{s} = C{s}.new {{.x = {lit}}}", f"print! c{s}.get()"]),
        ("class-empty", [f"D{s} = Class()", f"d{s} = D{s}.new()", f"print! d{s}"]),
        ("class-inherit", [f"@Inheritable", f"P{s} = Class {{.x = Int}}", f"Q{s} = Inherit P{s}", f"q{s} = Q{s}.new {{.x = 1}}", f"print! q{s}.x"]),
        ("mutable", [f"m{s} = !{lit}", f"print! m{s}"]),
        ("mutable-update", [f"m{s} = !1", f"m{s}.update! v -> v + {lit}", f"print! m{s}"]),
        ("mutable-list", [f"m{s} = ![1]", f"m{s}.push! {lit}", f"print! m{s}"]),
        ("lambda-default", [f"l{s} = (a := {lit}) -> a", f"print! l{s}()"]),
        ("kwargs", [f"k{s}(a: Int, b := 2) = a + b", f"print! k{s}({r.choice(['1', 'a := 1', '1, b := 3', 'b := 3', '1, c := 3', '1, 2, 3'])})"]),
        ("var-args", [f"v{s}(*args: Int) = len args", f"print! v{s}({r.choice(['', '1', '1, 2', lit])})"]),
        ("if-arity", [f"i{s} = if {r.choice(['True', lit])}, do {lit}", f"print! i{s}"]),
        ("if-else", [f"i{s} = if {r.choice(['True', 'False'])}, do {lit}, do {r.choice(LITS)}", f"print! i{s}"]),
        ("while", [f"w{s} = !0", f"while! do! w{s} < 2, do!:", f"    w{s}.inc!()", f"print! w{s}"]),
        ("unary", [f"u{s} = {r.choice(['-', '+', 'not ', '~'])}{lit}", f"print! u{s}"]),
        ("compare-chain", [f"print! {lit} {r.choice(['==', '<', '!=', 'in', 'is!'])} {r.choice(LITS)}"]),
        ("assert", [f"assert {lit} {r.choice(['==', '!='])} {r.choice(LITS)}"]),
        ("type-ascription", [f"t{s}: {r.choice(['Int', 'Str', '{1, 2}', 'Int or Str', '[Int; 2]', '{=}', '{.x = Int}', '(Int, Str)'])} = {r.choice(LITS + RECORDS[:3])}", f"print! t{s}"]),
        ("str-interp", [f'n{s} = {lit}', f'print! "v: \\{{n{s}}} \\{{{lit}}}"']),
        ("nested-func", [f"o{s}(a) =", f"    inner b = a + b", f"    inner {lit}", f"print! o{s}({r.choice(LITS)})"]),
        ("closure-proc", [f"p{s}!() =", f"    z = {lit}", f"    print! z", f"p{s}!()"]),
        ("method-chain", [f"print! {coll}.{r.choice(['len()', 'copy()', 'foo', '__len__()', 'get(0)'])}"]),
        ("pipe-do", [f"d{s} = do {lit}", f"print! d{s}()"]),
        ("trait", [f"T{s} = Trait {{.f = (self: Self) -> Int}}", f"K{s} = Class {{.x = Int}}, Impl := T{s}", f"K{s}|<: T{s}|.", f"    f self = self.x", f"print! K{s}.new({{.x = 1}}).f()"]),
    ]
    return out


def program(seed):
    r = random.Random(seed)
    lines, kinds = [], []
    for k in range(r.choice([1, 1, 2, 3, 4])):
        kind, ls = r.choice(snippets(r, k))
        kinds.append(kind)
        lines += ls
    return "\n".join(lines) + "\n", tuple(kinds)
