"""C14 Emitted code objects are structurally valid for the interpreter."""
import glob
import json
import os
import random

from . import common, frag, fragrun

LEVEL = "exploration"
RULE = ("every code object (recursively) of the .pyc that `erg --py-command P compile` writes for Frag programs, for programs with "
        "long and/or operands, closures, with!, keyword calls, and for the should_ok/examples corpus, for P in 3.7..3.11, is "
        "checked INSIDE interpreter P by an abstract interpreter built on P's own dis tables and dis.stack_effect: jump targets on "
        "instruction boundaries inside the code, const/name/local/free indexes in range, operand-stack depth never negative, "
        "consistent at joins and <= co_stacksize on every path (exception-table handlers included on 3.11), every instruction "
        "mapped to a line of the source file. The same checker accepts every code object CPython compiles for 170+ stdlib modules "
        "per version (calibration, re-run in the thorough tier). distinct = distinct (version, program skeleton) pairs")
MANIFEST = {
    "text": "Structural invariants of emitted bytecode are asserted with the target interpreter's own tables on thousands of code "
            "objects per run and version; the checker is calibrated against CPython's own compiler output.",
    "technique": "invariant monitor (abstract interpretation of emitted bytecode with the target's dis.stack_effect), calibrated on CPython-compiled code",
    "note": "<= 3.8 code objects with finally/with blocks and generator code objects get all checks except stack depth (their stack model is not per-edge)",
}
VERSIONS = ["3.7", "3.8", "3.9", "3.10", "3.11"]
EXTRA = {
    "long_and_or": lambda n: "f(x: Int): Int = x + 1\nb = True and (" + " + ".join(f"f({i})" for i in range(n)) + " > 0)\nprint! b\nc = False or (" + " + ".join(f"f({i})" for i in range(n)) + " > 0)\nprint! c\n",
    "closure": lambda n: "mk(k: Int) =\n    (x: Int) -> x + k\ng = mk 2\nprint! g(1)\n",
    "kwcall": lambda n: 's = "a,b,c"\nprint! s.split(",", maxsplit:=1)\nprint! 1, 2, sep:="-"\n',
    "with": lambda n: 'with! open("/dev/null"), f =>\n    print! f.read()\n',
    "many_consts": lambda n: "\n".join(f"v{i} = {i * 1000 + 7}" for i in range(n * 12)) + "\nprint! v0\n",
    "nested_if": lambda n: "x = 3\n" + "r = " + "".join(f"if x > {i}, do {i}, do " for i in range(8)) + "99" + "\nprint! r\n",
}


def compile_and_check(ctx, jobs):
    """jobs: list of (tag, version, source text).  Returns list of (tag, version, result dict)."""
    d = os.path.join(ctx.scratch, "j" + common.sha([j[0] for j in jobs]))
    os.makedirs(d, exist_ok=True)
    out = []
    byver = {}
    for k, (tag, v, src) in enumerate(jobs):
        sub = os.path.join(d, f"{k}_{v}")
        os.makedirs(sub, exist_ok=True)
        er = os.path.join(sub, "p.er")
        open(er, "w", encoding="utf-8").write(src)
        pc = ctx.run([ctx.erg, "--py-command", common.PY_VERSIONS[v], "compile", er], cwd=sub, timeout=180)
        pyc = os.path.join(sub, "p.pyc")
        if common.crash_signature(pc):
            out.append((tag, v, {"status": "crash", "note": common.crash_signature(pc)}))
        elif pc.rc != 0 or not os.path.exists(pyc):
            out.append((tag, v, {"status": "declined"}))
        else:
            byver.setdefault(v, []).append((tag, pyc, src.count("\n") + 1))
    for v, items in byver.items():
        nl = os.path.join(d, f"nl_{v}.json")
        json.dump({p: n for _, p, n in items}, open(nl, "w"))
        p = ctx.run([common.PY_VERSIONS[v], os.path.join(common.VERIF, "mon", "c14_check.py"), nl] + [p for _, p, _ in items], timeout=600)
        try:
            res = json.loads(p.sout)
        except Exception:
            for tag, pyc, _ in items:
                out.append((tag, v, {"status": "inconclusive", "note": p.serr[-200:]}))
            continue
        for tag, pyc, _ in items:
            r = res.get(pyc, {"error": "no result"})
            if "error" in r:
                out.append((tag, v, {"status": "unloadable", "note": r["error"]}))
            else:
                out.append((tag, v, {"status": "checked", "problems": r["problems"], "ncode": r["ncode"]}))
    return out


def record(rep, tag, v, r, src_of):
    st = r["status"]
    case = {"tag": tag, "version": v, "src": src_of(tag)}
    if st == "declined":
        rep.declined += 1
    elif st == "crash":
        rep.inconc(f"compiler crash (C07) {tag} {v}: {r['note']}")
    elif st == "inconclusive":
        rep.inconc(r["note"])
    elif st == "unloadable":
        rep.violation(f"unloadable:{v}", f"{tag} for {v}: marshal cannot load the file: {r['note']}", case)
    else:
        if not r["problems"]:
            rep.ok((v, tag if not tag.startswith("frag") else common.sha(src_of(tag))[:8]), {"version": v, "program": tag, "code_objects": r["ncode"]} if r["ncode"] > 2 else None)
            rep.count("code_objects_checked", r["ncode"])
            rep.count("ok_" + v)
            return
        seen = set()
        for kind, opname, detail, path in r["problems"]:
            origin = "frag" if tag.startswith("frag") else tag.split(":", 2)[1] if tag.startswith("extra:") else tag
            if kind in ("jump-target", "index", "stack-effect", "undecodable", "falls-off-end"):
                sig = f"{kind}:{v}:{opname}:{origin}"
            elif kind == "line-table":
                sig = f"{kind}:{v}" if v in ("3.10", "3.11") else f"{kind}:{v}:{origin}"
            else:
                sig = f"{kind}:{v}:{origin}"
            if sig in seen:
                continue
            seen.add(sig)
            rep.violation(sig, f"{tag} compiled for {v}, code object {path}: {kind} at {opname}: {detail}", case)


def calibrate(ctx, rep):
    for v in VERSIONS:
        P = common.PY_VERSIONS[v]
        lib = os.path.join(os.path.dirname(os.path.dirname(P)), "lib", "python" + v)
        files = sorted(glob.glob(lib + "/*.py"))[:ctx.n(40, 400)]
        p = ctx.run([P, os.path.join(common.VERIF, "mon", "c14_check.py"), "--calibrate"] + files, timeout=900)
        try:
            res = json.loads(p.sout)
        except Exception:
            raise common.Inconclusive(f"calibration under {v} failed: {p.serr[-200:]}")
        bad = {f: ps for f, ps in res.items() if ps}
        if bad:
            f, ps = next(iter(bad.items()))
            raise common.Inconclusive(f"checker is not calibrated for CPython {v}: it flags CPython's own {os.path.basename(f)}: {ps[0]}")
        rep.count("calibration_files_" + v, len(res))


def run(ctx, rep):
    calibrate(ctx, rep)
    rng = ctx.rng()
    srcs = {}
    jobs = []
    for i in range(ctx.n(50, 1000)):
        tree = frag.generate(random.Random(f"C14:{ctx.seed}:{i}"))
        tag = f"frag{i}"
        srcs[tag] = frag.to_erg(tree, top=True) + "\n"
        vs = VERSIONS if i % 4 == 0 else [rng.choice(VERSIONS[:4]), "3.11"]
        jobs += [(tag, v, srcs[tag]) for v in vs]
    for name, mk in EXTRA.items():
        for n in (3, 30):
            tag = f"extra:{name}:{n}"
            srcs[tag] = mk(n)
            jobs += [(tag, v, srcs[tag]) for v in VERSIONS]
    files = sorted(glob.glob(os.path.join(ctx.repo, "tests/should_ok/*.er")) + glob.glob(os.path.join(ctx.repo, "examples/*.er")))
    for f in files:
        tag = "corpus:" + os.path.basename(f)
        try:
            srcs[tag] = open(f, encoding="utf-8").read()
        except (OSError, UnicodeDecodeError):
            continue
        jobs += [(tag, v, srcs[tag]) for v in VERSIONS]   # the corpus part is the same in every run (seed-independent)
    parts = list(common.chunks(jobs, 12))
    for res in common.pmap(lambda part: compile_and_check(ctx, part), parts):
        for tag, v, r in res:
            record(rep, tag, v, r, lambda t: srcs[t])
    rep.min_evaluations = 100


def replay(ctx, rep, case):
    for tag, v, r in compile_and_check(ctx, [(case["tag"], case["version"], case["src"])]):
        record(rep, tag, v, r, lambda t: case["src"])
