"""Running Frag programs: the compiled program through the real `erg`, the reference through CPython."""
import os
import re

from . import common, frag

EXC_RE = re.compile(r"^([A-Za-z_][A-Za-z0-9_.]*(?:Error|Exception|Exit|Interrupt|Warning))\b", re.M)


def exc_class(stderr_text):
    """Class name on the last traceback line, if the text contains a Python traceback."""
    if "Traceback (most recent call last)" not in stderr_text:
        return None
    last = None
    for m in EXC_RE.finditer(stderr_text.split("Traceback (most recent call last)")[-1]):
        last = m.group(1)
    return last.split(".")[-1] if last else "UnknownException"


def outcome(p: common.Proc):
    """(stdout after the sentinel line, exit status, exception class).  `erg run` prints warnings on stdout before the
    program starts; the sentinel is the program's first output, so everything after it is program output."""
    if p.timed_out:
        return {"timeout": True}
    out = p.sout
    mark = frag.SENTINEL + "\n"
    i = out.find(mark)
    started = i >= 0
    if started:
        out = out[i + len(mark):]
    return {"out": out if started else "", "started": started, "rc": p.rc, "exc": exc_class(p.serr)}


def same_outcome(a, b):
    if a.get("timeout") or b.get("timeout"):
        return False
    return a["out"] == b["out"] and a["rc"] == b["rc"] and a["exc"] == b["exc"]


def write_case(dirpath, name, tree):
    os.makedirs(dirpath, exist_ok=True)
    er = os.path.join(dirpath, name + ".er")
    py = os.path.join(dirpath, name + "_ref.py")
    with open(er, "w", encoding="utf-8") as f:
        f.write(frag.to_erg(tree, top=True) + "\n")
    with open(py, "w", encoding="utf-8") as f:
        f.write(frag.to_py(tree) + "\n")
    return er, py


def erg_check(ctx, er, extra=()):
    return ctx.run([ctx.erg, *extra, "check", er], cwd=os.path.dirname(er), timeout=120)


def erg_run(ctx, er, extra=()):
    return ctx.run([ctx.erg, *extra, "run", er], cwd=os.path.dirname(er), timeout=120)


def py_run(ctx, py, python=common.DEFAULT_PY):
    return ctx.run([python, py], cwd=os.path.dirname(py), timeout=60)


ERR_MARK = re.compile(r"\bError\[#\d+\]")


def compile_rejected(p: common.Proc):
    """True if erg ended with ordinary diagnostics (not a crash)."""
    return p.rc not in (0, None) and bool(ERR_MARK.search(strip_ansi(p.serr + p.sout)))


ANSI = re.compile(r"\x1b\[[0-9;]*m")


def strip_ansi(s):
    return ANSI.sub("", s)
