"""C11 Operator expressions parse by the documented precedence table (reference precedence-climbing parser)."""
import itertools
import re

from . import common

LEVEL = "exploration"
RULE = ("operator expressions rendered to text (random binary-consistent spacing, parentheses, method calls, negative literals) and "
        "parsed by the real parser (`vh parse`, same code as `erg --mode parse`); oracle = 60-line reference Pratt parser written from "
        "the table in the property, compared as normalised prefix notation; exhaustive over all 2-/3-operator chains of the 24 binary "
        "operators (with all prefix-operator placements for 2-operator chains), random beyond; distinct = distinct expected trees")
MANIFEST = {
    "text": "Each generated expression text is parsed by the real parser and by an independent reference parser built from the "
            "precedence table; the trees must be identical. Chains of 2 and 3 operators are enumerated exhaustively (every pair/triple "
            "of the 24 binary operators), longer and parenthesised/method-call/literal forms are sampled.",
    "technique": "differential monitor: real parser (in-process harness) vs reference precedence-climbing parser",
    "note": "spacing is kept binary-consistent because Erg is space-sensitive around +/- by design; `!=`, and/or always spaced",
}

BIN = {  # operator -> precedence
    "**": 190, "*": 170, "/": 170, "//": 170, "%": 170, "+": 160, "-": 160, "<<": 150, ">>": 150, "&&": 140, "^^": 130,
    "||": 120, "..": 100, "<..": 100, "..<": 100, "<..<": 100, "<": 90, ">": 90, "<=": 90, ">=": 90, "==": 90, "!=": 90,
    "and": 80, "or": 70,
}
BINOPS = list(BIN)
PREFIX = ["-", "+", "~"]
PREFIX_PREC = 180
MUST_SPACE = {"and", "or", "!="}
IDENTS = ["a", "b", "c", "d", "e", "x", "zz"]


# ---------------------------------------------------------------- token-level expression generator
# An expression is a list of items: ("atom", text, tree) | ("bin", op) | ("pre", op) | ("lp",) | ("rp",)
def render(items, rng):
    """Text with binary-consistent spacing."""
    out = []
    for k, it in enumerate(items):
        if it[0] == "bin":
            op = it[1]
            nxt = items[k + 1] if k + 1 < len(items) else None
            prv = items[k - 1]
            # unspaced rendering must not glue characters into a different token (`<-`, `1..`, `*-`): space those out
            risky = (nxt is not None and (nxt[0] == "pre" or (nxt[0] == "atom" and nxt[1][0] in "-+~"))) \
                or (op[0] == "." or op[-1] == ".") and ((prv[0] == "atom" and prv[1][-1].isdigit()) or (nxt and nxt[0] == "atom" and nxt[1][0].isdigit()))
            if op in MUST_SPACE or risky or rng is None or rng.random() < 0.6:
                out.append(" " + op + " ")
            else:
                out.append(op)
        elif it[0] == "pre":
            out.append(it[1] + (" " if it[2] else ""))
        elif it[0] == "atom":
            out.append(it[1])
        elif it[0] == "lp":
            out.append("(")
        else:
            out.append(")")
    s = "".join(out)
    return s


class RefParser:
    """Precedence climbing over the item list. greedy=True models 'a prefix operator takes the whole rest of the expression'."""

    def __init__(self, items, greedy=False):
        self.items, self.i, self.greedy = items, 0, greedy

    def peek(self):
        return self.items[self.i] if self.i < len(self.items) else None

    def parse(self, min_prec=0):
        lhs = self.operand()
        while True:
            t = self.peek()
            if t is None or t[0] != "bin" or BIN[t[1]] < min_prec:
                return lhs
            self.i += 1
            rhs = self.parse(BIN[t[1]] + 1)   # every binary operator groups to the left
            lhs = ("bin", t[1], lhs, rhs)

    def operand(self):
        t = self.peek()
        self.i += 1
        if t[0] == "pre":
            e = self.parse(0 if self.greedy else PREFIX_PREC)
            return ("pre", t[1], e)
        if t[0] == "lp":
            e = self.parse(0)
            assert self.peek()[0] == "rp"
            self.i += 1
            return e
        assert t[0] == "atom", t
        return t[2]


def show(t):
    k = t[0]
    if k == "bin":
        return f"`{t[1]}`({show(t[2])}, {show(t[3])})"
    if k == "pre":
        return f"`{t[1]}`: {show(t[2])}"
    if k == "id":
        return "::" + t[1]
    if k == "lit":
        return t[1]
    if k == "attr":
        return show(t[1]) + "." + t[2]
    if k == "call":
        return show(t[1]) + "." + t[2] + "(" + ", ".join(show(a) for a in t[3]) + ")"
    raise ValueError(k)


def norm(s):
    return re.sub(r"\s+", " ", s).strip()


def expected(items, greedy=False):
    p = RefParser(items, greedy)
    t = p.parse(0)
    assert p.i == len(items)
    return t


# ---------------------------------------------------------------- generators
def atom_id(name):
    return ("atom", name, ("id", name))


def gen_atom(rng, depth, allow_neg_lit):
    r = rng.random()
    if r < 0.45 or depth <= 0:
        return [atom_id(rng.choice(IDENTS))]
    if r < 0.65:
        n = str(rng.choice([0, 1, 2, 7, 10, 255]))
        if allow_neg_lit and rng.random() < 0.3:
            n = "-" + n   # minus sign directly before a numeric literal is part of the literal
        return [("atom", n, ("lit", n))]
    if r < 0.75:
        base = rng.choice(IDENTS)
        attr = rng.choice(["x", "y", "val"])
        return [("atom", f"{base}.{attr}", ("attr", ("id", base), attr))]
    if r < 0.87:
        base = rng.choice(IDENTS)
        m = rng.choice(["m", "f", "get"])
        nargs = rng.choice([0, 1, 1, 2])
        args_items = [gen_expr(rng, depth - 1, rng.choice([0, 1, 2])) for _ in range(nargs)]
        # text of args rendered with spaces (canonical), trees from the SPEC reference; greedy handled by caller through items
        return [("call", base, m, args_items)]
    inner = gen_expr(rng, depth - 1, rng.choice([1, 2, 3]))
    return [("lp",)] + inner + [("rp",)]


def gen_expr(rng, depth, nops):
    items = []
    for k in range(nops + 1):
        if k > 0:
            items.append(("bin", rng.choice(BINOPS)))
        prev_is_pow = bool(items) and items[-1] == ("bin", "**")
        if rng.random() < 0.22 and not prev_is_pow:
            for _ in range(rng.choice([1, 1, 2])):
                items.append(("pre", rng.choice(PREFIX), True))   # rendered with a following space: never a literal
        # a negative literal is only unambiguous in prefix position after a *spaced* or operator token; we allow it after a binary op
        allow_neg = k > 0 and items[-1][0] == "bin"
        items += gen_atom(rng, depth, allow_neg)
    return items


def flatten_calls(items, rng, greedy):
    """Replace ("call", base, m, args_items) by an atom whose text/tree are computed recursively (args parsed by the reference)."""
    out = []
    for it in items:
        if it[0] == "call":
            texts, trees = [], []
            for a in it[3]:
                fa = flatten_calls(a, rng, greedy)
                texts.append(render(fa, None))
                trees.append(expected(fa, greedy))
            out.append(("atom", f"{it[1]}.{it[2]}(" + ", ".join(texts) + ")", ("call", ("id", it[1]), it[2], trees)))
        else:
            out.append(it)
    return out


def make_case(items, rng):
    spec_items = flatten_calls(items, rng, False)
    greedy_items = flatten_calls(items, rng, True)
    text = render(spec_items, rng)
    return {"src": "y = " + text + "\n", "want": norm(show(expected(spec_items))),
            "greedy": norm(show(expected(greedy_items, True))),
            "prefixes": sorted({it[1] for it in iter_items(items) if it[0] == "pre"})}


def iter_items(items):
    for it in items:
        if it[0] == "call":
            for a in it[3]:
                yield from iter_items(a)
        else:
            yield it


def exhaustive_chains(nops, with_prefix):
    names = ["a", "b", "c", "d", "e"]
    for ops in itertools.product(BINOPS, repeat=nops):
        if with_prefix:
            for pres in itertools.product([None] + PREFIX, repeat=nops + 1):
                items = []
                ok = True
                for k in range(nops + 1):
                    if k > 0:
                        items.append(("bin", ops[k - 1]))
                    if pres[k]:
                        if k > 0 and ops[k - 1] == "**":
                            ok = False
                            break
                        items.append(("pre", pres[k], True))
                    items.append(atom_id(names[k]))
                if ok:
                    yield items
        else:
            items = []
            for k in range(nops + 1):
                if k > 0:
                    items.append(("bin", ops[k - 1]))
                items.append(atom_id(names[k]))
            yield items


# ---------------------------------------------------------------- judge
def judge_batch(ctx, rep, cases):
    resp, proc = ctx.vh_lines("parse", [{"src": c["src"]} for c in cases], timeout=1800)
    if len(resp) != len(cases):
        raise common.Inconclusive(f"vh parse answered {len(resp)}/{len(cases)} rc={proc.rc} {proc.serr[-300:]}")
    for c, r in zip(cases, resp):
        if "panic" in r:
            rep.violation("panic:" + r["panic"].split(": ")[0], f"parser panicked on {c['src']!r}: {r['panic']}", c)
            continue
        if not r.get("ok"):
            msg = r["errors"][0]["msg"] if r.get("errors") else "?"
            rep.violation("rejected", f"{c['src']!r} rejected: {msg}", c)
            continue
        got = norm(r["ast"])
        if not got.startswith("::y = "):
            rep.violation("shape", f"{c['src']!r} parsed to {got!r}", c)
            continue
        got = got[len("::y = "):]
        if got == c["want"]:
            rep.ok(c["want"], {"src": c["src"].strip(), "tree": got} if len(c["src"]) > 24 else None)
        elif c["want"] != c["greedy"] and got == c["greedy"]:
            for p in c["prefixes"]:
                pass
            first = first_greedy_prefix(c)
            rep.violation(f"prefix-greedy:{first}",
                          f"{c['src'].strip()!r}: prefix operator swallowed the following lower-precedence operators: got {got}, table says {c['want']}", c)
        else:
            rep.violation("tree-mismatch", f"{c['src'].strip()!r}: got {got}, table says {c['want']}", c)


def first_greedy_prefix(c):
    # the first prefix operator at which the greedy and the specified reading diverge, approximated by the first
    # position where the two expected strings differ, looking backwards for the nearest `op`:
    w, g = c["want"], c["greedy"]
    i = 0
    while i < min(len(w), len(g)) and w[i] == g[i]:
        i += 1
    m = re.findall(r"`([-+~])`:", g[: i + 6])
    if m:
        return m[-1]
    return c["prefixes"][0] if c["prefixes"] else "?"


def run(ctx, rep):
    rng = ctx.rng()
    cases = []
    for items in exhaustive_chains(2, True):
        cases.append(make_case(items, rng))
    for items in exhaustive_chains(3, False):
        cases.append(make_case(items, rng))
    rep.extra["exhaustive_cases"] = len(cases)
    if not ctx.quick:
        # every 4-operator chain, and a sample of 3-operator chains with prefix placements
        for items in exhaustive_chains(4, False):
            cases.append(make_case(items, rng))
        rep.extra["exhaustive_cases"] = len(cases)
    nrand = ctx.n(25000, 600000)
    for _ in range(nrand):
        items = gen_expr(rng, rng.choice([1, 2, 2, 3]), rng.choice([1, 2, 3, 4, 5]))
        cases.append(make_case(items, rng))
    rep.extra["random_cases"] = nrand
    common.run_parallel(rep, cases, lambda sr, part: judge_batch(ctx, sr, part))
    rep.min_evaluations = 10000


def replay(ctx, rep, case):
    judge_batch(ctx, rep, [case])
