"""C03 Refinement subtyping is sound for integer predicates (exact executable oracle)."""
import os

from . import common

LEVEL = "exploration"
RULE = ("pairs of integer refinement types {I: Int | P}, {I: Int | Q} with P, Q random trees (depth <= 3) over == != < <= > >= and or "
        "not with constants -8..8 and closed intervals a..b; types are elaborated from SOURCE specs by the real lowerer and compared "
        "with the real Context::subtype_of (`vh subtype`, N x N matrices); a sample is confirmed end to end through the CLI "
        "(`g(x: {..P}): {..Q} = x` accepted by `erg check`, then `print! g(v)` run). Oracle: own evaluation of P and Q on the window "
        "[min const-3, max const+3] (exact for one-variable comparison atoms): accepted and some v with P(v) and not Q(v) => "
        "violation with witness v. distinct = distinct accepted (P, Q) pairs with P not identical to Q")
MANIFEST = {
    "text": "Soundness only (a rejected valid pair is not judged). Every accepted pair is decided exactly by evaluating both "
            "predicates on a window that is sufficient for comparison atoms; witnesses are confirmed by running the program.",
    "technique": "differential monitor with exact executable oracle (window evaluation) over in-process subtype_of + CLI confirmation",
    "note": "SMT is replaced by exact window evaluation; in-process types come from source specs, never from raw constructors",
}


def gen_pred(rng, d):
    if d == 0 or rng.random() < 0.3:
        op = rng.choice(["==", "!=", "<", "<=", ">", ">="])
        if rng.random() < 0.1:
            # constants around the i32/i64/u64 boundaries (constant comparison must be exact there too)
            return (op, rng.choice([2**31 - 1, 2**31, -(2**31), 2**53 + 1, 2**63 - 1, 2**63, 2**63 + 1, 2**64 - 1, -1, -2]))
        return (op, rng.randint(-8, 8))
    k = rng.random()
    if k < 0.2:
        return ("not", gen_pred(rng, d - 1))
    return (rng.choice(["and", "or"]), gen_pred(rng, d - 1), gen_pred(rng, d - 1))


def ev(p, i):
    k = p[0]
    if k == "==": return i == p[1]
    if k == "!=": return i != p[1]
    if k == "<": return i < p[1]
    if k == "<=": return i <= p[1]
    if k == ">": return i > p[1]
    if k == ">=": return i >= p[1]
    if k == "not": return not ev(p[1], i)
    if k == "and": return ev(p[1], i) and ev(p[2], i)
    if k == "or": return ev(p[1], i) or ev(p[2], i)
    if k == "interval": return p[1] <= i <= p[2]
    raise ValueError(k)


def consts(p):
    if p[0] in ("==", "!=", "<", "<=", ">", ">="):
        return [p[1]]
    if p[0] == "interval":
        return [p[1], p[2]]
    out = []
    for x in p[1:]:
        out += consts(x)
    return out


def show(p):
    k = p[0]
    if k in ("==", "!=", "<", "<=", ">", ">="):
        c = p[1]
        return f"I {k} {c}" if c >= 0 else f"I {k} ({c})"
    if k == "not":
        return f"not ({show(p[1])})"
    return f"({show(p[1])}) {k} ({show(p[2])})"


def spec(p):
    if p[0] == "interval":
        a, b = p[1], p[2]
        return f"{a}..{b}" if a >= 0 else f"({a})..{b}" if b >= 0 else f"({a})..({b})"
    return "{I: Int | " + show(p) + "}"


def gen_type(rng):
    if rng.random() < 0.12:
        a = rng.randint(0, 8)
        return ("interval", a, a + rng.randint(0, 6))
    return gen_pred(rng, rng.choice([0, 1, 1, 2, 2, 3]))


def witness(p, q):
    # comparison atoms change their truth value only at their constants: one representative per piece is exact
    cs = consts(p) + consts(q)
    cand = sorted({c + d for c in cs for d in (-1, 0, 1)} | {min(cs) - 3, max(cs) + 3})
    for v in cand:
        if ev(p, v) and not ev(q, v):
            return v
    return None


def judge_batch(ctx, rep, preds):
    resp, proc = ctx.vh_lines("subtype", [{"specs": [spec(p) for p in preds]}], timeout=600)
    if not resp:
        raise common.Inconclusive(f"vh subtype gave no answer rc={proc.rc} {proc.serr[-300:]}")
    r = resp[0]
    if "panic" in r:
        rep.violation("panic:" + common._relsrc(r["panic"].split(": ")[0]), f"subtype batch panicked: {r['panic'][:200]}", {"preds": preds})
        return []
    if "matrix" not in r:
        raise common.Inconclusive(f"vh subtype: {str(r)[:300]}")
    found = []
    n = len(preds)
    for i in range(n):
        if r["types"][i] is None:
            rep.declined += 1
            continue
        for j in range(n):
            if i == j or r["types"][j] is None or r["matrix"][i][j] is None:
                continue
            p, q = preds[i], preds[j]
            if r["matrix"][i][j]:
                w = witness(p, q)
                if w is not None:
                    case = {"p": p, "q": q}
                    if "Int |" not in r["types"][i] and has_not(q):
                        # listed finding: a sub type whose elaborated base is Nat (interval literal, non-negative enum)
                        # is accepted below any predicate that contains `not`
                        rep.violation("known:nat-based-sub-vs-not-in-super",
                                      f"{spec(p)} (elaborated {r['types'][i]}) accepted as a subtype of {spec(q)}; witness {w}", case)
                        continue
                    rep.violation("unsound:" + shape(p) + "<:" + shape(q),
                                  f"{spec(p)} accepted as a subtype of {spec(q)} (elaborated: {r['types'][i]} <: {r['types'][j]}) but {w} satisfies the first and not the second", case)
                    found.append((p, q, w))
                else:
                    rep.ok(common.sha([p, q]), {"sub": spec(p), "sup": spec(q)} if (i + j) % 97 == 0 else None)
                    rep.count("accepted_pairs")
            else:
                rep.evaluations += 1
                rep.count("rejected_pairs")
    return found


def has_not(p):
    return p[0] == "not" or any(isinstance(x, tuple) and has_not(x) for x in p[1:])


def shape(p):
    return {"and": "And", "or": "Or", "not": "Not", "interval": "Interval"}.get(p[0], "Atom")


def cli_confirm(ctx, rep, p, q, expect_unsound_witness=None):
    """End-to-end: g(x: P): Q = x accepted?  If accepted and a witness exists, run it."""
    d = os.path.join(ctx.scratch, "cli" + common.sha([p, q]))
    os.makedirs(d, exist_ok=True)
    w = witness(p, q)
    arg = w if w is not None else next((v for v in range(-12, 13) if ev(p, v)), None)
    src = f"g(x: {spec(p)}): {spec(q)} = x\n"
    if arg is not None:
        src += f"print! g({arg})\n" if arg >= 0 else f"print! g(({arg}))\n"
    path = os.path.join(d, "g.er")
    open(path, "w").write(src)
    pc = ctx.run([ctx.erg, "check", path], cwd=d, timeout=120)
    crash = common.crash_signature(pc)
    if crash:
        rep.inconc(f"compiler crash on CLI confirmation: {crash}")
        return
    accepted = pc.rc == 0
    if accepted and w is not None:
        pr = ctx.run([ctx.erg, "run", path], cwd=d, timeout=120)
        rep.violation("unsound-cli:" + shape(p) + "<:" + shape(q),
                      f"`erg check` accepts {src.splitlines()[0]!r}; g({w}) returns {pr.sout.strip().splitlines()[-1:]} which is outside the declared result type", {"p": p, "q": q, "cli": True})
    else:
        rep.ok(("cli", common.sha([p, q])), {"program": src, "accepted": accepted} if accepted else None)
        rep.count("cli_accepted" if accepted else "cli_rejected")


def run(ctx, rep):
    rng = ctx.rng()
    nb = ctx.n(48, 1500)
    batches = [[gen_type(rng) for _ in range(24)] for _ in range(nb)]
    # structured batches: chains of related predicates make accepted pairs frequent
    for _ in range(ctx.n(16, 1000)):
        base = rng.randint(-6, 6)
        b = []
        for k in range(12):
            lo, hi = base - rng.randint(0, 4), base + rng.randint(0, 6)
            b.append(rng.choice([("and", (">=", lo), ("<=", hi)), ("and", (">", lo - 1), ("<", hi + 1)), (">=", lo), ("<=", hi),
                                 ("or", ("==", lo), ("==", hi)), ("and", (">=", lo), ("!=", hi)), ("not", ("<", lo)),
                                 ("and", ("and", (">=", lo), ("<=", hi)), ("!=", base)), ("or", ("<", lo), (">", hi)),
                                 ("interval", max(lo, 0), max(hi, 0) + max(lo, 0))]))
        batches.append(b + [gen_type(rng) for _ in range(12)])
    found = []
    for f in common.pmap(lambda b: _one(ctx, b), batches):
        rep.merge(f[0])
        found += f[1]
    rep.extra["batches"] = len(batches)
    # CLI confirmations on a sample of sound-and-accepted-looking pairs
    pairs = []
    for _ in range(ctx.n(60, 2500)):
        base = rng.randint(-5, 5)
        p = ("and", (">=", base), ("<=", base + rng.randint(0, 5)))
        q = rng.choice([(">=", base - rng.randint(0, 3)), ("and", (">=", base - rng.randint(0, 2)), ("<=", base + rng.randint(3, 9))),
                        ("!=", base - 1), gen_type(rng)])
        pairs.append((p, q) if rng.random() < 0.7 else (gen_type(rng), gen_type(rng)))
    subs = common.pmap(lambda pq: _cli(ctx, pq), pairs)
    for sr in subs:
        rep.merge(sr)
    judge_batch(ctx, rep, [("interval", 3, 3), ("not", (">", 0))])
    rep.min_evaluations = 2000


def _one(ctx, b):
    sr = common.Report(ctx, LEVEL, RULE)
    found = judge_batch(ctx, sr, b)
    return sr, found


def _cli(ctx, pq):
    sr = common.Report(ctx, LEVEL, RULE)
    cli_confirm(ctx, sr, pq[0], pq[1])
    return sr


def tup(x):
    return tuple(tup(y) if isinstance(y, list) else y for y in x)


def replay(ctx, rep, case):
    p, q = tup(case["p"]), tup(case["q"])
    if case.get("cli"):
        cli_confirm(ctx, rep, p, q)
    else:
        judge_batch(ctx, rep, [p, q])
