"""C18 The JSON transpile target emits valid JSON with the bound values."""
import json
import math
import os

from . import common, frag, fragrun

LEVEL = "exploration"
RULE = ("modules of public (and interleaved private) bindings whose initialisers are generated constants: Nat/Int (incl. large, "
        "negative, 1_000 spelling), Float (negative fractions, exponents, tiny values), Str over ASCII, quotes, backslashes, control "
        "characters, BMP and astral code points, Bool, None, homogeneous lists, tuples, records and string-keyed dicts nested to "
        "depth 3; transpiled with `erg transpile --target json`; the output must parse with json.loads (strict) and equal the "
        "expected mapping by value (tuples as arrays, records as objects). distinct = distinct value-shape signatures")
MANIFEST = {
    "text": "Each generated module has a known expected mapping; the emitted file is parsed by CPython's strict JSON parser and "
            "compared by value.",
    "technique": "differential monitor: generated constant modules vs parsed output of the JSON target",
    "note": "lists are homogeneous (Erg rejects heterogeneous list literals); modules the compiler declines are not judged",
}
STRS = ["", "a", "hello", "x y", 'q"uote', "back\\slash", "it's", "new\nline", "tab\tchar", "é", "日本語", "😀", "a😀b", "{}", "[1, 2]",
        "null", "true", "\r", "/", "\\n", "%s", "<!--", " ", "k1", "\x07bell"]
KEYS = ["k", "key", "a b", "é", 'q"', "it's", "😀", "x", "y1"]


def gen_scalar(rng, kind):
    if kind == "nat":
        v = rng.choice([0, 1, 7, 42, 1000, 65535, 2**31, 2**32 + 1, 2**63, 2**64 - 1])
        txt = str(v)
        if v >= 1000 and rng.random() < 0.3:
            txt = f"{v:_}"
        return v, txt
    if kind == "int":
        v = -rng.choice([1, 2, 7, 100, 65536, 2**31])
        return v, f"({v})" if False else str(v)
    if kind == "float":
        v = rng.choice([0.5, 1.5, 2.25, 3.125, 0.1, 100.75, 1e10, 1.5e10, 1e-5, 1.0e-11, 123456.789, 0.0, 2.0])
        if rng.random() < 0.4:
            v = -v
        r = repr(float(abs(v)))
        if "e" in r:
            m, ex = r.split("e")
            if "." not in m:
                m += ".0"
            r = f"{m}e{int(ex)}"
        return v, ("-" + r) if (v < 0 or (v == 0 and math.copysign(1, v) < 0)) else r
    if kind == "str":
        v = "".join(rng.choice(STRS) for _ in range(rng.randint(0, 3)))
        if frag.quote_edge(v):
            v = "s" + v + "e"
        return v, frag.erg_str(v)
    if kind == "bool":
        v = rng.random() < 0.5
        return v, "True" if v else "False"
    if kind == "none":
        return None, "None"
    raise ValueError(kind)


SCALARS = ["nat", "int", "float", "str", "bool", "none"]


def gen_value(rng, depth):
    """returns (python value, erg text, shape)"""
    k = rng.random()
    if depth == 0 or k < 0.45:
        kind = rng.choice(SCALARS)
        v, t = gen_scalar(rng, kind)
        return v, t, kind
    if k < 0.6:
        kind = rng.choice(["nat", "str", "float", "bool"])
        items = [gen_scalar(rng, kind) for _ in range(rng.randint(1, 4))]
        return [i[0] for i in items], "[" + ", ".join(i[1] for i in items) + "]", f"list({kind})"
    if k < 0.75:
        items = [gen_value(rng, depth - 1) for _ in range(rng.randint(2, 3))]
        return [i[0] for i in items], "(" + ", ".join(i[1] for i in items) + ")", "tuple(" + ",".join(i[2] for i in items) + ")"
    if k < 0.9:
        n = rng.randint(1, 3)
        names = rng.sample(["k", "s", "val", "x1", "name"], n)
        items = [gen_value(rng, depth - 1) for _ in range(n)]
        return ({nm: i[0] for nm, i in zip(names, items)}, "{" + "; ".join(f".{nm} = {i[1]}" for nm, i in zip(names, items)) + "}",
                "record(" + ",".join(i[2] for i in items) + ")")
    n = rng.randint(1, 3)
    keys = rng.sample(KEYS, n)
    kind = rng.choice(["nat", "str", "bool"])
    items = [gen_scalar(rng, kind) for _ in range(n)]
    return ({k_: i[0] for k_, i in zip(keys, items)}, "{" + ", ".join(f"{frag.erg_str(k_)}: {i[1]}" for k_, i in zip(keys, items)) + "}",
            f"dict({kind})")


def gen_module(rng, mid):
    lines, expected, shapes = [], {}, []
    for i in range(rng.randint(1, 7)):
        if rng.random() < 0.2:
            lines.append(f"priv{i} = {rng.randint(0, 9)}")
            continue
        v, t, sh = gen_value(rng, rng.choice([0, 1, 2, 3]))
        name = f"b{i}"
        lines.append(f".{name} = {t}")
        expected[name] = v
        shapes.append(sh)
    if rng.random() < 0.3:
        lines.append("tail_ = 0")
    return {"src": "\n".join(lines) + "\n", "expected": expected, "shapes": shapes, "mid": mid}


def same(a, b):
    if isinstance(a, bool) or isinstance(b, bool) or a is None or b is None:
        return type(a) is type(b) and a == b
    if isinstance(a, (int, float)) and isinstance(b, (int, float)):
        return float(a) == float(b) if isinstance(a, float) or isinstance(b, float) else a == b
    if isinstance(a, list) and isinstance(b, list):
        return len(a) == len(b) and all(same(x, y) for x, y in zip(a, b))
    if isinstance(a, dict) and isinstance(b, dict):
        return a.keys() == b.keys() and all(same(a[k], b[k]) for k in a)
    return type(a) is type(b) and a == b


def run_one(ctx, m):
    d = os.path.join(ctx.scratch, f"m{m['mid']}")
    os.makedirs(d, exist_ok=True)
    er = os.path.join(d, "mod.er")
    open(er, "w", encoding="utf-8").write(m["src"])
    p = ctx.run([ctx.erg, "transpile", "--target", "json", er], cwd=d, timeout=120)
    out = os.path.join(d, "mod.json")
    if p.timed_out:
        return m, "inconclusive", "timeout"
    if common.crash_signature(p):
        return m, "crash", common.crash_signature(p)
    if p.rc != 0 or not os.path.exists(out):
        return m, "declined", fragrun.strip_ansi(p.serr + p.sout)[-200:]
    text = open(out, encoding="utf-8").read()
    try:
        got = json.loads(text)
    except json.JSONDecodeError as e:
        return m, "invalid", f"{e}; output {text[:300]!r}"
    if not isinstance(got, dict) or not same(got, m["expected"]):
        bad = [k for k in m["expected"] if not (isinstance(got, dict) and k in got and same(got[k], m["expected"][k]))]
        extra = [k for k in got if k not in m["expected"]] if isinstance(got, dict) else []
        return m, "wrong", f"bindings {bad} differ (extra {extra}): expected {[m['expected'][k] for k in bad][:3]!r} got {[got.get(k) for k in bad][:3] if isinstance(got, dict) else got!r}"
    return m, "ok", None


def record(rep, m, st, info):
    case = {"src": m["src"], "expected": m["expected"], "shapes": m["shapes"], "mid": m["mid"]}
    if st == "ok":
        rep.ok("|".join(sorted(m["shapes"])), {"module": m["src"][:300]} if len(m["src"]) < 200 else None)
        for sh in m["shapes"]:
            rep.count("shape_" + sh.split("(")[0])
    elif st == "declined":
        rep.declined += 1
    elif st == "crash":
        rep.inconc("compiler crash (C07): " + info)
    elif st == "inconclusive":
        rep.inconc(info)
    else:
        rep.violation(f"{st}-json", f"{info}\nmodule:\n{m['src'][:600]}", case)


def run(ctx, rep):
    rng = ctx.rng()
    mods = [gen_module(rng, i) for i in range(ctx.n(700, 6000))]
    for m, st, info in common.pmap(lambda m: run_one(ctx, m), mods):
        record(rep, m, st, info)
    rep.min_evaluations = 150


def replay(ctx, rep, case):
    record(rep, *run_one(ctx, case))
