"""C21 Module dependency graph operations match a reference graph (history checker against a dict-of-sets model)."""
import json

from . import common

LEVEL = "exploration"
RULE = ("random operation histories (add / import=add+inc_ref as build_package does / bare inc_ref / remove / rename to a fresh path / sort), <= 40 "
        "ops over 6 paths, applied to the real ModuleGraph through `vh graph`; after EVERY op all queries (get_node, parents, children, "
        "ancestors, depends_on, deep_depends_on over the universe, node order after sort) are compared with a dict-of-sets reference; "
        "plus erg_common::tsort on random graphs with and without cycles; distinct = distinct reference graph states reached")
MANIFEST = {
    "text": "State-machine monitoring: thousands of generated operation histories run against the real ModuleGraph, every query "
            "after every step compared with a 40-line reference graph; cycle refusal and topological order checked per step.",
    "technique": "history checker against an executable reference model (in-process harness)",
    "note": "edges are created both as build_package.rs does (target registered first) and bare (target only an edge target); renames go to fresh names",
}
BASE = [f"/vgraph/m{i}.er" for i in range(6)]


class Ref:
    def __init__(self):
        self.nodes = []      # insertion order
        self.deps = {}

    def add(self, p):
        if p not in self.deps:
            self.nodes.append(p)
            self.deps[p] = set()

    def reach(self, a):
        seen, st = set(), list(self.deps.get(a, ()))
        while st:
            x = st.pop()
            if x in seen:
                continue
            seen.add(x)
            st += list(self.deps.get(x, ()))
        return seen

    def imp(self, frm, to, register_target=True):
        if register_target:
            self.add(to)
        self.add(frm)
        if frm == to:
            return "ok"
        if frm in self.reach(to):
            return "CycleDetected"
        self.deps[frm].add(to)
        return "ok"

    def remove(self, p):
        if p in self.deps:
            self.nodes.remove(p)
            del self.deps[p]
        for d in self.deps.values():
            d.discard(p)

    def rename(self, old, new):
        if old in self.deps:
            self.nodes[self.nodes.index(old)] = new
            self.deps[new] = self.deps.pop(old)
        for d in self.deps.values():
            if old in d:
                d.discard(old)
                d.add(new)

    def key(self):
        return tuple(sorted((n, tuple(sorted(d))) for n, d in self.deps.items()))


def gen_history(rng, maxlen):
    n = rng.randint(3, maxlen)
    ops, fresh = [], 0
    live = list(BASE)
    for _ in range(n):
        r = rng.random()
        if r < 0.12:
            ops.append(["add", rng.choice(live)])
        elif r < 0.55:
            ops.append(["import", rng.choice(live), rng.choice(live)])
        elif r < 0.70:
            # bare edge: the target need not be registered (it is then only an edge target)
            ops.append(["inc_ref", rng.choice(live), rng.choice(live)])
        elif r < 0.80:
            ops.append(["remove", rng.choice(live)])
        elif r < 0.90:
            old = rng.choice(live)
            new = f"/vgraph/r{fresh}.er"
            fresh += 1
            ops.append(["rename", old, new])
            live = [new if x == old else x for x in live] + ([old] if rng.random() < 0.5 else [])
        else:
            ops.append(["sort"])
    universe = sorted({a for op in ops for a in op[1:]} | set(BASE))
    return {"universe": universe, "ops": ops}


def check_history(rep, case, resp):
    if "panic" in resp:
        rep.violation("panic:" + resp["panic"].split(": ")[0], f"history panicked: {resp['panic']}", case)
        return
    ref = Ref()
    uni = case["universe"]
    for k, (op, step) in enumerate(zip(case["ops"], resp["steps"])):
        want = "ok"
        if op[0] == "add":
            ref.add(op[1])
        elif op[0] == "import":
            want = ref.imp(op[1], op[2])
        elif op[0] == "inc_ref":
            want = ref.imp(op[1], op[2], register_target=False)
        elif op[0] == "remove":
            ref.remove(op[1])
        elif op[0] == "rename":
            ref.rename(op[1], op[2])
        elif op[0] == "sort":
            want = "ok"   # cycles are refused at insertion and there are no dangling edges, so sort must succeed
        dangling = sorted({d for ds in ref.deps.values() for d in ds if d not in ref.deps})
        if op[0] == "sort" and dangling and step["result"] == "KeyNotFound":
            # listed finding: an edge to a module that was never registered makes sort fail instead of sorting
            rep.violation("sort:dangling-edge-keynotfound",
                          f"step {k}: sort() returned KeyNotFound because of edges to unregistered modules {dangling}; no cycle exists", trim(case, k))
            # the graph must be unchanged by the failed sort: keep checking the queries below
        elif step["result"] != want:
            kind = "cycle-not-refused" if want == "CycleDetected" else ("cycle-false-alarm" if step["result"] == "CycleDetected" else "sort-failed")
            rep.violation(f"result:{op[0]}:{kind}", f"step {k} {op}: returned {step['result']}, reference says {want}", trim(case, k))
            return
        # queries
        for u in uni:
            q = step["q"][u]
            isnode = u in ref.deps
            exp = {
                "node": {"id": u, "deps": sorted(ref.deps[u])} if isnode else None,
                "parents": sorted(ref.deps[u]) if isnode else None,
                "children": sorted(n for n in ref.nodes if u in ref.deps[n]),
                "ancestors": sorted(ref.reach(u)),
                "depends_on": sorted(ref.deps.get(u, ())),
                "deep_depends_on": sorted(ref.reach(u)),
            }
            for name, e in exp.items():
                if q[name] != e:
                    rep.violation(f"query:{name}:after-{op[0]}",
                                  f"step {k} {op}: {name}({u}) = {q[name]}, reference = {e}", trim(case, k))
                    return
        order = step["order"]
        if sorted(order) != sorted(ref.nodes):
            rep.violation(f"nodes:after-{op[0]}", f"step {k} {op}: node list {order} != reference {ref.nodes}", trim(case, k))
            return
        if op[0] == "sort" and step["result"] == "ok":
            pos = {n: i for i, n in enumerate(order)}
            for n in order:
                for d in ref.deps[n]:
                    if d in pos and pos[d] > pos[n]:
                        rep.violation("sort:order", f"step {k}: after sort {n} precedes its dependency {d}: {order}", trim(case, k))
                        return
            ref.nodes = list(order)
        rep.distinct.add(common.sha(ref.key()))
    rep.ok(None, case if len(case["ops"]) <= 8 else None)


def trim(case, k):
    return {"universe": case["universe"], "ops": case["ops"][: k + 1]}


def judge_graph_batch(ctx, rep, cases):
    resp, proc = ctx.vh_lines("graph", cases, timeout=1800)
    if len(resp) != len(cases):
        raise common.Inconclusive(f"vh graph answered {len(resp)}/{len(cases)} rc={proc.rc} {proc.serr[-300:]}")
    for c, r in zip(cases, resp):
        check_history(rep, c, r)


# ------------------------------------------------------------------ tsort
def gen_tsort(rng):
    n = rng.randint(1, 7)
    ids = [f"n{i}" for i in range(n)]
    rng.shuffle(ids)
    p = rng.choice([0.1, 0.2, 0.35])
    nodes = []
    acyclic = rng.random() < 0.5
    for i, a in enumerate(ids):
        cand = ids[:i] if acyclic else ids
        nodes.append([a, [b for b in cand if rng.random() < p]])
    rng.shuffle(nodes)
    return {"tsort": True, "nodes": nodes}


def has_cycle(nodes):
    deps = {a: set(d) for a, d in nodes}
    color = {}

    def dfs(v):
        color[v] = 1
        for w in deps[v]:
            if color.get(w) == 1:
                return True
            if w not in color and dfs(w):
                return True
        color[v] = 2
        return False
    return any(v not in color and dfs(v) for v in deps)


def judge_tsort_batch(ctx, rep, cases):
    resp, proc = ctx.vh_lines("tsort", cases, timeout=900)
    if len(resp) != len(cases):
        raise common.Inconclusive(f"vh tsort answered {len(resp)}/{len(cases)} rc={proc.rc}")
    for c, r in zip(cases, resp):
        if "panic" in r:
            rep.violation("tsort:panic:" + r["panic"].split(": ")[0], f"tsort panicked on {c['nodes']}: {r['panic']}", c)
            continue
        cyc = has_cycle(c["nodes"])
        if cyc:
            if r.get("err") != "Cyclic":
                rep.violation("tsort:cycle-missed", f"graph {c['nodes']} has a cycle, tsort returned {r}", c)
            else:
                rep.ok(("tsort-cyclic", common.sha(c["nodes"])))
        else:
            if "ok" not in r:
                rep.violation("tsort:false-cycle", f"acyclic graph {c['nodes']}: tsort returned {r}", c)
                continue
            order = r["ok"]
            pos = {n: i for i, n in enumerate(order)}
            deps = dict((a, d) for a, d in c["nodes"])
            if sorted(order) != sorted(deps):
                rep.violation("tsort:not-permutation", f"{c['nodes']} -> {order}", c)
            elif any(pos[d] > pos[n] for n in order for d in deps[n]):
                rep.violation("tsort:order", f"{c['nodes']} -> {order} lists a node before a dependency", c)
            else:
                rep.ok(("tsort-ok", common.sha(c["nodes"])), c if len(order) == 4 else None)


def run(ctx, rep):
    rng = ctx.rng()
    nh = ctx.n(2500, 150000)
    hist = [gen_history(rng, 40) for _ in range(nh)]
    common.run_parallel(rep, hist, lambda sr, part: judge_graph_batch(ctx, sr, part))
    ts = [gen_tsort(rng) for _ in range(ctx.n(10000, 500000))]
    common.run_parallel(rep, ts, lambda sr, part: judge_tsort_batch(ctx, sr, part))
    rep.extra["histories"] = nh
    rep.extra["tsort_graphs"] = len(ts)
    rep.extra["ops_total"] = sum(len(h["ops"]) for h in hist)
    rep.min_evaluations = 1000


def replay(ctx, rep, case):
    if case.get("tsort"):
        judge_tsort_batch(ctx, rep, [case])
    else:
        judge_graph_batch(ctx, rep, [case])
