"""C13 Every supported Python target runs the program identically."""
import os
import random

from . import common, frag, fragrun

LEVEL = "translation_validation"
RULE = ("Frag programs x target interpreters 3.7, 3.8, 3.9, 3.10, 3.11: (a) `erg --py-command P compile f.er` then `P f.pyc`, "
        "(b) `erg --py-command P run f.er`; each outcome (stdout after the sentinel, exit status, exception class) must equal the "
        "outcome of the independent Python reading executed by the same interpreter P, and therefore the default target's; every "
        "program prints sys.version_info.minor through pyimport, so the interpreter that really executed the bytecode is observed. "
        "distinct = distinct (program skeleton, version) pairs")
MANIFEST = {
    "text": "The cross product of generated programs and the five supported interpreters is executed in both modes; the reference "
            "is the same program's Python reading under the same interpreter.",
    "technique": "differential execution monitor across CPython 3.7-3.11 (compile + run the .pyc, and `erg run`), interpreter identity observed",
    "note": "trusted: the installed CPython builds and mon/frag.py's to_py; Frag uses no construct whose Python semantics differ between 3.7 and 3.11",
}
VERSIONS = ["3.7", "3.8", "3.9", "3.10", "3.11"]


def build(case):
    rng = random.Random(case["seed"])
    tree = frag.generate(rng, frag.Opts(**case.get("opts", {})))
    probe = ("raw", 'sys_ = pyimport "sys"\nprint!("minor", sys_.version_info.minor)', 'print("minor", sys.version_info.minor)')
    return [probe] + tree


def run_one(ctx, case):
    d = os.path.join(ctx.scratch, "c" + common.sha(case))
    os.makedirs(d, exist_ok=True)
    tree = build(case)
    er, py = fragrun.write_case(d, "p", tree)
    v = case["version"]
    P = common.PY_VERSIONS[v]
    res = {"case": case, "skel": common.sha([frag.skeleton([s for s in tree if s[0] != "raw"]), v])}
    ref = fragrun.outcome(fragrun.py_run(ctx, py, python=P))
    if ref.get("timeout") or ref["exc"] in ("SyntaxError", "NameError", "TypeError") or f"minor {v.split('.')[1]}\n" not in ref["out"]:
        res["status"] = "inconclusive"
        res["note"] = f"reference unusable under {v}: {ref}"[:200]
        return res
    # (a) compile for P, run the file with P
    pcc = ctx.run([ctx.erg, "--py-command", P, "compile", er], cwd=d, timeout=180)
    crash = common.crash_signature(pcc)
    if crash:
        res["status"] = "crash"
        res["note"] = crash
        return res
    pyc = er[:-3] + ".pyc"
    if pcc.rc != 0 or not os.path.exists(pyc):
        if fragrun.compile_rejected(pcc):
            res["status"] = "declined"
            return res
        res["status"] = "diff"
        res["detail"] = {"how": "compile", "version": v, "stderr": fragrun.strip_ansi(pcc.serr)[-300:]}
        return res
    a = fragrun.outcome(ctx.run([P, pyc], cwd=d, timeout=90))
    res["src"] = open(er, encoding="utf-8").read()
    if not fragrun.same_outcome(a, ref):
        res["status"] = "diff"
        res["detail"] = dict(describe(a, ref), how="compile+pyc", version=v)
        return res
    # (b) erg run with P
    pr = ctx.run([ctx.erg, "--py-command", P, "run", er], cwd=d, timeout=180)
    if common.crash_signature(pr):
        res["status"] = "crash"
        res["note"] = common.crash_signature(pr)
        return res
    b = fragrun.outcome(pr)
    if not fragrun.same_outcome(b, ref):
        res["status"] = "diff"
        res["detail"] = dict(describe(b, ref), how="run", version=v)
        return res
    res["status"] = "same"
    res["lines"] = ref["out"].count("\n")
    return res


def describe(got, ref):
    la, lb = got["out"].split("\n"), ref["out"].split("\n")
    k = 0
    while k < min(len(la), len(lb)) and la[k] == lb[k]:
        k += 1
    return {"first_diff_line": k, "erg_line": la[k:k + 1], "ref_line": lb[k:k + 1],
            "erg": {"rc": got["rc"], "exc": got["exc"]}, "ref": {"rc": ref["rc"], "exc": ref["exc"]}}


def record(rep, r):
    st = r["status"]
    v = r["case"]["version"]
    if st == "same":
        rep.ok(r["skel"], {"version": v, "program_head": r["src"][:400]} if r["lines"] < 8 else None)
        rep.count("ok_" + v)
    elif st == "declined":
        rep.declined += 1
    elif st == "crash":
        rep.inconc(f"compiler crash (C07) for target {v}: " + r["note"])
    elif st == "inconclusive":
        rep.inconc(r["note"])
    else:
        d = r["detail"]
        rep.violation(f"diff:{d['how']}:{v}", f"{d}\nprogram:\n{r.get('src', '')[:1200]}", r["case"])


# fixed programs run in every tier for every version: constructs whose code generation differs per version
EXTRA = {
    "bool-ops": ("for! [True, False], a =>\n    for! [True, False], b =>\n        print!(a, b, (a && b), (a || b), (a ^^ b), (a and b), (a or b))\n",
                 "for a in [True, False]:\n    for b in [True, False]:\n        print(a, b, (a & b), (a | b), (a ^ b), (a and b), (a or b))\n"),
    "kw-method": ('s = "a,b,c,d"\nprint!(s.split(",", maxsplit:=2), s.split(","))\nprint!(1, 2, sep:="-", end:="!\\n")\n',
                  's = "a,b,c,d"\nprint(s.split(",", maxsplit=2), s.split(","))\nprint(1, 2, sep="-", end="!\\n")\n'),
    "closure": ("mk(k: Int) =\n    (x: Int) -> x + k\ng = mk 5\nprint!(g(1), g(10))\n", "def mk(k):\n    return lambda x: x + k\ng = mk(5)\nprint(g(1), g(10))\n"),
    "if-no-else": ("for! 0..<4, i =>\n    r = if i > 1, do i * 10\n    print!(i, r)\n", "for i in range(4):\n    r = i * 10 if i > 1 else None\n    print(i, r)\n"),
    "arith-ops": ("for! [7, 8], a =>\n    print!(a // 2, a % 3, a ** 2, a / 2, a - 10, a * 3, a << 0 == a)\n" if False else
                  "for! [7, 8], a =>\n    print!(a // 2, a % 3, a ** 2, a / 2, a - 10, a * 3)\n",
                  "for a in [7, 8]:\n    print(a // 2, a % 3, a ** 2, a / 2, a - 10, a * 3)\n"),
    "compare-chain": ("for! [1, 5], a =>\n    print!(a < 3, a <= 5, a == 5, a != 1, a > 1, a >= 5, not a == 1)\n",
                      "for a in [1, 5]:\n    print(a < 3, a <= 5, a == 5, a != 1, a > 1, a >= 5, not a == 1)\n"),
}


def run_extra(ctx, name, v):
    d = os.path.join(ctx.scratch, f"extra_{name}_{v}")
    os.makedirs(d, exist_ok=True)
    erg_src, py_src = EXTRA[name]
    er, py = os.path.join(d, "p.er"), os.path.join(d, "p_ref.py")
    open(er, "w").write('print!("' + frag.SENTINEL + '")\n' + erg_src)
    open(py, "w").write('print("' + frag.SENTINEL + '")\n' + py_src)
    P = common.PY_VERSIONS[v]
    ref = fragrun.outcome(fragrun.py_run(ctx, py, python=P))
    pr = ctx.run([ctx.erg, "--py-command", P, "run", er], cwd=d, timeout=180)
    got = fragrun.outcome(pr)
    return name, v, ref, got, pr


def run(ctx, rep):
    n = ctx.n(24, 400)
    cases = [{"seed": f"C13:{ctx.seed}:{i}", "version": v} for i in range(n) for v in VERSIONS]
    for name, v, ref, got, pr in common.pmap(lambda nv: run_extra(ctx, *nv), [(nm, v) for nm in EXTRA for v in VERSIONS]):
        if common.crash_signature(pr):
            rep.inconc(f"compiler crash on extra {name}/{v}")
        elif not got["started"] and got["exc"] is None and fragrun.compile_rejected(pr):
            rep.declined += 1
        elif not fragrun.same_outcome(got, ref):
            rep.violation(f"extra:{name}:{v}", f"fixed program {name} under {v}: {describe(got, ref)}", {"extra": name, "version": v})
        else:
            rep.ok(("extra", name, v))
    for r in common.pmap(lambda c: run_one(ctx, c), cases):
        record(rep, r)
    rep.programs = rep.evaluations
    rep.disagreements_checked = len(rep.violations)
    rep.min_evaluations = len(cases) // 3
    rep.extra["versions"] = VERSIONS


def replay(ctx, rep, case):
    if "extra" in case:
        name, v, ref, got, pr = run_extra(ctx, case["extra"], case["version"])
        if not fragrun.same_outcome(got, ref):
            rep.violation(f"extra:{name}:{v}", "replayed", case)
        return
    record(rep, run_one(ctx, case))
