"""Frag: a typed, seeded generator of Erg programs as TREES, with two independent printers:
   to_erg(tree)  -> Erg source text
   to_py(tree)   -> plain Python with the Python-semantics reading of the same tree (reference for C01 etc.)
The two printers share only the tree; to_py never looks at erg's own transpiler.

Every non-atomic sub-expression is parenthesised by both printers, so operator precedence (C11) cannot leak in.
Every binding is used (default -o 1 drops unused bindings; that is C12's subject, not C01's).
"""
import random

NAT, INT, FLOAT, STR, BOOL, LINT, LSTR = "Nat", "Int", "Float", "Str", "Bool", "List(Int)", "List(Str)"
ERG_TY = {NAT: "Nat", INT: "Int", FLOAT: "Float", STR: "Str", BOOL: "Bool", LINT: "List(Int)", LSTR: "List(Str)"}


def is_int(t):
    return t in (NAT, INT)


class Opts:
    """Feature switches. Defaults are the 'main workload' of C01."""

    def __init__(self, **kw):
        self.big_ints = True          # literals >= 2**31, 2**63, 2**64
        self.neg_ints = True
        self.floats = True
        self.signed_zero = True
        self.strings = True
        self.hostile_strings = True   # quotes, backslashes, braces, unicode in string literals
        self.lists = True
        self.functions = True
        self.lambdas = True
        self.patterns = True
        self.loops = True
        self.procs = True
        self.asserts = True
        self.exits = True
        self.zero_div = False         # allow possibly-zero divisors
        self.quote_edge = False       # string literals that begin/end with two double quotes (listed finding)
        self.bitops = True            # the non-short-circuit Bool operators && || ^^
        self.max_stmts = 14
        self.max_depth = 3
        self.use_all = True           # make sure every binding is used
        self.__dict__.update(kw)


INT_POOL = [0, 1, 2, 3, 5, 7, 10, 12, 100, 255, 1000, 65535, 65536, 99999]
# Nat literals may be as large as 2**64-1 (larger ones are rejected as "invalid literal"); negative literals reach -2**31
BIG_POOL = [2**31 - 1, 2**31, 2**31 + 1, 2**32 - 1, 2**32, 2**32 + 1, 2**63 - 1, 2**63, 2**63 + 1, 2**64 - 1, 3 * 10**9, 10**18]
FLOAT_POOL = [0.0, 0.5, 1.0, 1.5, 2.0, 2.5, 3.25, 10.0, 0.1, 100.75, 1e10, 1e-05, 123456.789]
STR_POOL = ["", "a", "b", "abc", "hello", "x y", "Hello, World", "0", "42", "z" * 7]
HOSTILE_STR_POOL = ['"', "'", "\\", "a\"b", "it's", "back\\slash", "{", "}", "{x}", "\n", "tab\there", "é", "日本語", "😀", "a😀b",
                    "%d", "%s", "#", "# no comment", "\\n", "\r", "\0x", "'''", '"""', "$", "`"]


class Gen:
    def __init__(self, rng: random.Random, opts: Opts = None):
        self.rng = rng
        self.o = opts or Opts()
        self.counter = 0
        self.funcs = []    # (name, [param types], ret type, is_proc)

    # ------------------------------------------------------------ names / scopes
    def fresh(self, prefix="v"):
        self.counter += 1
        return f"{prefix}{self.counter}"

    # scope: list of dicts name -> {"t": type, "used": bool, "nonempty": bool, "len": int|None, "lit": value|None}
    def vars_of(self, scopes, pred):
        out = []
        for sc in scopes:
            for n, info in sc.items():
                if pred(info):
                    out.append(n)
        return out

    def use(self, scopes, name):
        for sc in reversed(scopes):
            if name in sc:
                sc[name]["used"] = True
                return

    # ------------------------------------------------------------ literals
    def lit_int(self, want_nat):
        r = self.rng.random()
        if self.o.big_ints and r < 0.12:
            v = self.rng.choice(BIG_POOL)
        else:
            v = self.rng.choice(INT_POOL)
        if not want_nat and self.o.neg_ints and self.rng.random() < 0.35:
            if v >= 2**31:
                # no negative literal below -2**31 exists: write it as a subtraction
                return ("bin", "-", ("lit", NAT, 0), ("lit", NAT, v), INT)
            v = -v if v != 0 else self.rng.choice([-1, -2**31])
        return ("lit", NAT if v >= 0 else INT, v)

    def lit_float(self):
        v = self.rng.choice(FLOAT_POOL)
        if self.rng.random() < 0.25:
            v = -v
        if v == 0.0 and not self.o.signed_zero:
            v = 0.0
        return ("lit", FLOAT, v)

    def lit_str(self):
        if self.o.hostile_strings and self.rng.random() < 0.3:
            for _ in range(20):
                parts = [self.rng.choice(HOSTILE_STR_POOL + STR_POOL) for _ in range(self.rng.randint(1, 3))]
                v = "".join(parts)
                if self.o.quote_edge or not quote_edge(v):
                    return ("lit", STR, v)
        return ("lit", STR, self.rng.choice(STR_POOL))

    # ------------------------------------------------------------ expressions
    def expr(self, t, scopes, depth, top=False):
        """Generate an expression of (at most) type t. INT accepts NAT expressions too.
        top: the expression is a print!/call argument or the whole right-hand side of an annotated binding.  Int-valued
        `if` expressions are only generated there: their inferred type is an enum/union ({1, 2}, Int or {3}) on which the
        checker mistypes arithmetic (listed finding, exercised separately)."""
        rng = self.rng
        if top and is_int(t) and depth > 0 and rng.random() < 0.15:
            return self.if_expr(t, scopes, depth)
        if t == "smallnat":
            return ("lit", NAT, rng.randint(0, 8))
        if depth <= 0 or rng.random() < 0.25:
            return self.atom(t, scopes)
        if t == NAT:
            k = rng.random()
            if k < 0.45:
                return ("bin", rng.choice(["+", "*"]), self.expr(NAT, scopes, depth - 1), self.expr(NAT, scopes, depth - 1), NAT)
            if k < 0.6:
                return self.len_expr(scopes, depth)
            if k < 0.7:
                return ("call", "abs", [self.expr(INT, scopes, depth - 1)], NAT)
            return self.atom(NAT, scopes)
        if t == INT:
            k = rng.random()
            if k < 0.4:
                op = rng.choice(["+", "-", "*", "-"])
                return ("bin", op, self.expr(INT, scopes, depth - 1), self.expr(INT, scopes, depth - 1), INT)
            if k < 0.5:
                op = rng.choice(["//", "%"])
                return ("bin", op, self.expr(INT, scopes, depth - 1), self.divisor(scopes, depth - 1), INT)
            if k < 0.56:
                # `Int ** Nat` is DECLARED to return Nat (examples rely on x**2: Nat), so a negative base with an odd exponent
                # is a listed finding (ValueError from the Nat wrapper); the main workload keeps the result non-negative
                ex = rng.choice([0, 1, 2, 3])
                base = self.expr(INT if ex % 2 == 0 else NAT, scopes, depth - 1)
                return ("bin", "**", base, ("lit", NAT, ex), NAT)
            if k < 0.62:
                return ("un", "-", self.expr(INT, scopes, depth - 1), INT)
            if k < 0.74:
                return self.user_call(INT, scopes, depth) or self.atom(INT, scopes)
            if k < 0.84:
                f = rng.choice(["min", "max"])
                return ("call", f, [self.expr(INT, scopes, depth - 1), self.expr(INT, scopes, depth - 1)], INT)
            if k < 0.9 and self.o.lists:
                return self.index_expr(LINT, scopes) or self.atom(INT, scopes)
            return self.expr(NAT, scopes, depth)
        if t == FLOAT:
            k = rng.random()
            if k < 0.5:
                op = rng.choice(["+", "-", "*"])
                a = self.expr(FLOAT, scopes, depth - 1)
                b = self.expr(rng.choice([FLOAT, FLOAT, INT]), scopes, depth - 1)
                if rng.random() < 0.3:
                    a, b = b, a
                return ("bin", op, a, b, FLOAT)
            if k < 0.65:
                # true division: Int / Int and Float / Int are Float
                a = self.expr(rng.choice([FLOAT, INT]), scopes, depth - 1)
                return ("bin", "/", a, self.divisor(scopes, depth - 1), FLOAT)
            if k < 0.72:
                return ("un", "-", self.expr(FLOAT, scopes, depth - 1), FLOAT)
            if k < 0.8:
                return self.if_expr(FLOAT, scopes, depth)
            return self.atom(FLOAT, scopes)
        if t == STR:
            k = rng.random()
            if k < 0.35:
                return ("bin", "+", self.expr(STR, scopes, depth - 1), self.expr(STR, scopes, depth - 1), STR)
            if k < 0.45:
                return ("bin", "*", self.expr(STR, scopes, depth - 1), ("lit", NAT, rng.choice([0, 1, 2, 3])), STR)
            if k < 0.6:
                return ("call", "str", [self.expr(rng.choice([INT, BOOL, STR]), scopes, depth - 1)], STR)
            if k < 0.72:
                return self.interp(scopes, depth)
            if k < 0.8:
                return self.if_expr(STR, scopes, depth)
            if k < 0.87:
                return self.index_expr(STR, scopes) or self.atom(STR, scopes)
            if k < 0.91 and self.o.lists:
                return self.index_expr(LSTR, scopes) or self.atom(STR, scopes)
            if k < 0.97:
                m = rng.choice(["upper", "lower", "strip", "replace"])
                recv = self.expr(STR, scopes, depth - 1)
                args = [self.expr(STR, scopes, 0), self.expr(STR, scopes, 0)] if m == "replace" else []
                if m == "replace" and args[0][0] == "lit" and args[0][2] == "":
                    args[0] = ("lit", STR, "a")
                return ("meth", recv, m, args, [], STR)
            return self.atom(STR, scopes)
        if t == BOOL:
            k = rng.random()
            if k < 0.5:
                kind = rng.choice([INT, INT, FLOAT, STR])
                if kind == STR:
                    op = rng.choice(["==", "!="])
                elif kind == FLOAT:
                    op = rng.choice(["<", "<=", ">", ">="])   # Float has no Eq in Erg
                else:
                    op = rng.choice(["==", "!=", "<", "<=", ">", ">="])
                return ("cmp", op, self.expr(kind, scopes, depth - 1), self.expr(kind, scopes, depth - 1))
            if k < 0.7:
                return ("bool", rng.choice(["and", "or"]), self.expr(BOOL, scopes, depth - 1), self.expr(BOOL, scopes, depth - 1))
            if k < 0.8:
                return ("not", self.expr(BOOL, scopes, depth - 1))
            if k < 0.87 and self.o.bitops:
                # the non-short-circuit operators on Bool
                return ("bin", rng.choice(["&&", "||", "^^"]), self.expr(BOOL, scopes, depth - 1), self.expr(BOOL, scopes, depth - 1), BOOL)
            if k < 0.91:
                return ("meth", self.expr(STR, scopes, depth - 1), "startswith", [self.expr(STR, scopes, 0)], [], BOOL)
            return self.atom(BOOL, scopes)
        if t == LINT:
            k = rng.random()
            if k < 0.3:
                return ("bin", "+", self.expr(LINT, scopes, depth - 1), self.expr(LINT, scopes, depth - 1), LINT)
            return self.atom(LINT, scopes, depth)
        if t == LSTR:
            if rng.random() < 0.3:
                sep = ("lit", STR, rng.choice([",", " ", "a", "ll", "-"]))
                kw = [("maxsplit", ("lit", NAT, rng.choice([0, 1, 2])))] if rng.random() < 0.6 else []
                return ("meth", self.expr(STR, scopes, depth - 1), "split", [sep], kw, LSTR)
            return self.atom(LSTR, scopes, depth)
        raise ValueError(t)

    def divisor(self, scopes, depth):
        if self.o.zero_div and self.rng.random() < 0.3:
            return self.expr(INT, scopes, depth)
        if self.rng.random() < 0.6:
            v = self.rng.choice([1, 2, 3, 5, 7, 10])
            if self.o.neg_ints and self.rng.random() < 0.3:
                v = -v
            return ("lit", NAT if v > 0 else INT, v)
        # abs(e) + 1 is never zero
        return ("bin", "+", ("call", "abs", [self.expr(INT, scopes, depth)], NAT), ("lit", NAT, 1), NAT)

    def if_expr(self, t, scopes, depth):
        return ("if", self.expr(BOOL, scopes, depth - 1), self.expr(t, scopes, depth - 1), self.expr(t, scopes, depth - 1), t)

    def len_expr(self, scopes, depth):
        kinds = [STR] + ([LINT] if self.o.lists else [])
        return ("call", "len", [self.expr(self.rng.choice(kinds), scopes, depth - 1)], NAT)

    def interp(self, scopes, depth):
        parts = []
        for _ in range(self.rng.randint(1, 3)):
            if self.rng.random() < 0.5:
                parts.append(("text", self.rng.choice(["", " ", "x=", ", ", "a b", "[", "]"])))
            parts.append(("expr", self.expr(self.rng.choice([INT, STR, BOOL]), scopes, max(0, depth - 2))))
        return ("interp", parts)

    def index_expr(self, container_t, scopes):
        """Index a variable bound to a non-empty literal container with a literal in-range index."""
        names = self.vars_of(scopes, lambda i: i["t"] == container_t and i.get("len"))
        if not names:
            return None
        n = self.rng.choice(names)
        ln = None
        for sc in scopes:
            if n in sc:
                ln = sc[n]["len"]
        self.use(scopes, n)
        elem_t = {LINT: INT, LSTR: STR, STR: STR}[container_t]
        return ("idx", ("var", n, container_t), ("lit", NAT, self.rng.randrange(ln)), elem_t)

    def user_call(self, t, scopes, depth):
        cands = [f for f in self.funcs if f[2] == t and not f[3]]
        if not cands:
            return None
        name, ptypes, ret, _ = self.rng.choice(cands)
        return ("ucall", name, [self.expr(pt, scopes, depth - 1, top=True) for pt in ptypes], ret)

    def atom(self, t, scopes, depth=1):
        rng = self.rng
        accept = (lambda i: i["t"] == t) if t != INT else (lambda i: i["t"] in (INT, NAT))
        names = self.vars_of(scopes, accept)
        if names and rng.random() < 0.6:
            # prefer variables that have not been used yet
            unused = [n for n in names if not self._info(scopes, n)["used"]]
            n = rng.choice(unused or names)
            self.use(scopes, n)
            return ("var", n, self._info(scopes, n)["t"])
        if t == NAT:
            return self.lit_int(True)
        if t == INT:
            return self.lit_int(False)
        if t == FLOAT:
            return self.lit_float()
        if t == STR:
            return self.lit_str()
        if t == BOOL:
            return ("lit", BOOL, rng.random() < 0.5)
        if t == LINT:
            return ("list", [self.expr(INT, scopes, max(0, depth - 1)) for _ in range(rng.randint(1, 4))], LINT)
        if t == LSTR:
            return ("list", [self.expr(STR, scopes, max(0, depth - 1)) for _ in range(rng.randint(1, 3))], LSTR)
        raise ValueError(t)

    def _info(self, scopes, n):
        for sc in reversed(scopes):
            if n in sc:
                return sc[n]
        raise KeyError(n)

    # ------------------------------------------------------------ statements
    def value_types(self):
        ts = [INT, INT, NAT, BOOL]
        if self.o.floats:
            ts += [FLOAT]
        if self.o.strings:
            ts += [STR, STR]
        if self.o.lists:
            ts += [LINT, LSTR]
        return ts

    def stmt_let(self, scopes, depth):
        t = self.rng.choice(self.value_types())
        e = self.expr(t, scopes, depth, top=True)
        name = self.fresh()
        info = {"t": etype(e), "used": False}
        if e[0] == "lit" and e[1] == STR and len(e[2]) > 0:
            info["len"] = len(e[2])
        if e[0] == "list":
            info["len"] = len(e[1])
        scopes[-1][name] = info
        # annotate sometimes (with a supertype that is certainly correct)
        ann = None
        if e[0] == "if" and is_int(etype(e)):
            ann = INT            # see expr(): the binding must not keep the enum/union type
            info["t"] = INT
        elif self.rng.random() < 0.3:
            et = etype(e)
            ann = INT if et == NAT and self.rng.random() < 0.5 else et
            if ann == INT:
                info["t"] = INT
        return ("let", name, ann, e)

    def stmt_print(self, scopes, depth):
        n = self.rng.choice([1, 1, 2, 3])
        return ("print", [self.expr(self.rng.choice(self.value_types()), scopes, depth, top=True) for _ in range(n)])

    def block(self, scopes, depth, nmax, in_loop=False):
        """A list of statements in a NEW scope; unused bindings of that scope are printed at the end."""
        scopes = scopes + [{}]
        body = []
        for _ in range(self.rng.randint(1, nmax)):
            body.append(self.stmt(scopes, depth, nested=True))
        body += self.flush_unused(scopes)
        if body[-1][0] != "print":
            # every block ends with a print!: a block whose last statement is a statement form (assert, for!, while!, if!)
            # is transpiled to `tmp = assert ...` / `tmp = for ...` (listed finding of C17, exercised there)
            body.append(self.stmt_print(scopes, 1))
        return body

    def flush_unused(self, scopes):
        out = []
        if not self.o.use_all:
            return out
        for n, info in scopes[-1].items():
            if not info["used"]:
                info["used"] = True
                out.append(("print", [("var", n, info["t"])]))
        return out

    def stmt(self, scopes, depth, nested=False):
        rng = self.rng
        k = rng.random()
        if k < 0.32:
            return self.stmt_let(scopes, depth)
        if k < 0.6:
            return self.stmt_print(scopes, depth)
        if k < 0.66 and self.o.patterns:
            return self.stmt_pattern(scopes, depth)
        if k < 0.74 and self.o.loops and depth > 0:
            return self.stmt_for(scopes, depth)
        if k < 0.8 and depth > 0:
            return ("if!", self.expr(BOOL, scopes, depth), self.block(scopes, depth - 1, 3), self.block(scopes, depth - 1, 2))
        if k < 0.84 and self.o.loops and depth > 0 and not nested:
            return self.stmt_while(scopes, depth)
        if k < 0.88 and self.o.asserts:
            return ("assert", self.expr(BOOL, scopes, depth))
        if k < 0.93 and self.o.procs and self.funcs:
            procs = [f for f in self.funcs if f[3]]
            if procs:
                name, ptypes, _, _ = rng.choice(procs)
                return ("pcall", name, [self.expr(pt, scopes, depth, top=True) for pt in ptypes])
        return self.stmt_print(scopes, depth)

    def stmt_pattern(self, scopes, depth):
        rng = self.rng
        kind = rng.choice(["tuple", "tuple", "list", "nested"])
        if kind == "list":
            t = rng.choice([INT, STR])
            n = rng.randint(2, 3)
            names = [self.fresh() for _ in range(n)]
            exprs = [self.expr(t, scopes, depth - 1) for _ in range(n)]
            for nm, e in zip(names, exprs):
                scopes[-1][nm] = {"t": INT if is_int(etype(e)) else etype(e), "used": False}
            return ("pat", ("plist", names), ("list", exprs, LINT if t == INT else LSTR))
        if kind == "tuple":
            n = rng.randint(2, 3)
            ts = [rng.choice([INT, STR, BOOL, FLOAT]) for _ in range(n)]
            names = [self.fresh() for _ in range(n)]
            exprs = [self.expr(t, scopes, depth - 1) for t in ts]
            for nm, e in zip(names, exprs):
                scopes[-1][nm] = {"t": etype(e), "used": False}
            return ("pat", ("ptuple", names), ("tuple", exprs))
        # nested: (a, (b, c)) = (e1, (e2, e3))
        ts = [rng.choice([INT, STR, BOOL]) for _ in range(3)]
        names = [self.fresh() for _ in range(3)]
        exprs = [self.expr(t, scopes, depth - 1) for t in ts]
        for nm, e in zip(names, exprs):
            scopes[-1][nm] = {"t": etype(e), "used": False}
        return ("pat", ("ptuple", [names[0], ("ptuple", names[1:])]), ("tuple", [exprs[0], ("tuple", exprs[1:])]))

    def stmt_for(self, scopes, depth):
        rng = self.rng
        var = self.fresh("i")
        if rng.random() < 0.6 or not self.o.lists:
            lo = rng.choice([0, 0, 1, 2])
            hi = lo + rng.randint(0, 4)
            closed = rng.random() < 0.3
            inner = scopes + [{var: {"t": NAT, "used": True}}]
            body = self.block(inner, depth - 1, 3)
            return ("for_range", var, lo, hi, closed, body)
        t = rng.choice([INT, STR])
        lst = self.expr(LINT if t == INT else LSTR, scopes, depth - 1)
        inner = scopes + [{var: {"t": t, "used": True}}]
        body = self.block(inner, depth - 1, 3)
        return ("for_list", var, lst, body)

    def stmt_while(self, scopes, depth):
        cnt = self.fresh("c")
        bound = self.rng.randint(0, 4)
        inner = scopes + [{cnt: {"t": "Nat!", "used": True}}]
        body = [("print", [("var", cnt, NAT)])] + self.block(inner, depth - 1, 2)
        return ("while", cnt, bound, body)

    # ------------------------------------------------------------ definitions
    def gen_func(self):
        rng = self.rng
        name = self.fresh("f")
        np = rng.randint(1, 3)
        ptypes = [rng.choice([INT, INT, STR, BOOL, FLOAT] if self.o.floats else [INT, STR, BOOL]) for _ in range(np)]
        ret = rng.choice([INT, INT, STR, BOOL] + ([FLOAT] if self.o.floats else []))
        params = [(self.fresh("p"), t) for t in ptypes]
        scope = {n: {"t": t, "used": True} for n, t in params}
        scopes = [scope]
        body = []
        saved = self.funcs
        self.funcs = [f for f in self.funcs if not f[3]]   # functions may call earlier functions, never procedures
        for _ in range(rng.randint(0, 3)):
            body.append(self.stmt_let(scopes, 2))
        res = self.expr(ret, scopes, 2)
        # every local must be used: fold unused ones into the result through a pure, total wrapper
        unused = [n for n, i in scope.items() if not i["used"]]
        self.funcs = saved
        annotate_ret = rng.random() < 0.6
        oneliner = not body and rng.random() < 0.5
        fn = ("def", name, params, ret if annotate_ret else None, body, res, oneliner, unused)
        self.funcs.append((name, ptypes, ret, False))
        return fn

    def gen_rec_func(self):
        """fact/sum style recursion on a decreasing Int argument."""
        name = self.fresh("r")
        p = self.fresh("p")
        kind = self.rng.choice(["fact", "sum", "fib"])
        self.funcs.append((name, ["smallnat"], INT, False))
        return ("recdef", name, p, kind)

    def gen_proc(self):
        rng = self.rng
        name = self.fresh("q") + "!"
        np = rng.randint(0, 2)
        ptypes = [rng.choice([INT, STR, BOOL]) for _ in range(np)]
        params = [(self.fresh("p"), t) for t in ptypes]
        scopes = [{n: {"t": t, "used": True} for n, t in params}]
        saved = self.funcs
        self.funcs = [f for f in self.funcs if not f[3]]
        body = []
        for _ in range(rng.randint(1, 3)):
            k = rng.random()
            if k < 0.4:
                body.append(self.stmt_let(scopes, 2))
            else:
                body.append(self.stmt_print(scopes, 2))
        body += self.flush_unused(scopes)
        if not any(s[0] == "print" for s in body):
            body.append(self.stmt_print(scopes, 1))
        self.funcs = saved
        self.funcs.append((name, ptypes, None, True))
        return ("proc", name, params, body)

    def gen_lambda(self, scopes):
        name = self.fresh("lam")
        p = self.fresh("p")
        t = self.rng.choice([INT, STR])
        inner = [{p: {"t": t, "used": True}}]
        saved = self.funcs
        self.funcs = []
        body = self.expr(t, inner, 2)
        self.funcs = saved
        self.funcs.append((name, [t], etype_join(t, etype(body)), False))
        return ("lamdef", name, p, t, body)

    # ------------------------------------------------------------ program
    def program(self):
        rng = self.rng
        scopes = [{}]
        stmts = []
        if self.o.functions:
            for _ in range(rng.choice([0, 1, 1, 2])):
                stmts.append(self.gen_func())
            if rng.random() < 0.3:
                stmts.append(self.gen_rec_func())
        if self.o.lambdas and rng.random() < 0.4:
            stmts.append(self.gen_lambda(scopes))
        if self.o.procs and rng.random() < 0.4:
            stmts.append(self.gen_proc())
        for _ in range(rng.randint(3, self.o.max_stmts)):
            stmts.append(self.stmt(scopes, self.o.max_depth))
        stmts += self.flush_unused(scopes)
        # unused user functions would only give warnings; call each one once so that its code is exercised
        for f in self.funcs:
            name, ptypes, ret, is_proc = f
            if ptypes == ["smallnat"]:
                stmts.append(("print", [("ucall", name, [("lit", NAT, rng.randint(0, 8))], INT)]))
            elif is_proc:
                stmts.append(("pcall", name, [self.expr(pt, scopes, 1) for pt in ptypes]))
            else:
                stmts.append(("print", [("ucall", name, [self.expr(pt, scopes, 1) for pt in ptypes], ret)]))
        if self.o.exits and rng.random() < 0.15:
            stmts.append(("exit", rng.choice([0, 1, 2, 3, 7, 42])))
        return stmts


def quote_edge(v):
    # The token of a string literal keeps the UNESCAPED text between its quotes, so a literal whose value begins with two
    # double quotes cannot be told from a triple-quoted string: literals whose value is one double quote, or begins or
    # ends with two of them, lose those quotes (listed finding, exercised separately).
    return v == '"' or v.startswith('""') or v.endswith('""')


def etype(e):
    k = e[0]
    if k == "lit":
        return e[1]
    if k == "var":
        return e[2]
    if k in ("bin", "un"):
        return e[-1]
    if k in ("cmp", "bool", "not"):
        return BOOL
    if k in ("call", "ucall", "idx", "if", "meth"):
        return e[-1]
    if k == "interp":
        return STR
    if k == "list":
        return e[2]
    raise ValueError(k)


def etype_join(a, b):
    if is_int(a) and is_int(b):
        return INT
    return a


# ====================================================================== printers
def erg_str(s):
    out = ['"']
    for ch in s:
        if ch == '"':
            out.append('\\"')
        elif ch == "\\":
            out.append("\\\\")
        elif ch == "\n":
            out.append("\\n")
        elif ch == "\r":
            out.append("\\r")
        elif ch == "\t":
            out.append("\\x09")
        elif ch == "\0":
            out.append("\\0")
        else:
            out.append(ch)
    out.append('"')
    return "".join(out)


def erg_float(v):
    r = repr(float(v))
    if "e" in r or "E" in r:
        # Erg float literals: mantissa with a dot is fine for 1e+10 style? keep plain decimal where possible
        m, ex = r.split("e")
        if "." not in m:
            m += ".0"
        return f"{m}e{int(ex)}"
    return r


def to_erg_expr(e):
    k = e[0]
    if k == "lit":
        t, v = e[1], e[2]
        if t in (NAT, INT):
            return str(v) if v >= 0 else f"({v})"
        if t == FLOAT:
            s = erg_float(abs(v))
            neg = (v < 0) or (v == 0 and str(v).startswith("-"))
            return f"(-{s})" if neg else s
        if t == STR:
            return erg_str(v)
        if t == BOOL:
            return "True" if v else "False"
    if k == "var":
        return e[1]
    if k == "bin":
        if e[4] in (NAT, INT, FLOAT):
            return f"({erg_operand(e[2])} {e[1]} {erg_operand(e[3])})"
        return f"({to_erg_expr(e[2])} {e[1]} {to_erg_expr(e[3])})"
    if k == "un":
        # `(-3000000000)` would be lexed as one (invalid) negative literal
        return f"(-({erg_operand(e[2])}))"
    if k == "cmp":
        return f"({to_erg_expr(e[2])} {e[1]} {to_erg_expr(e[3])})"
    if k == "bool":
        return f"({to_erg_expr(e[2])} {e[1]} {to_erg_expr(e[3])})"
    if k == "not":
        return f"(not {to_erg_expr(e[1])})"
    if k in ("call", "ucall"):
        return f"{e[1]}(" + ", ".join(to_erg_expr(a) for a in e[2]) + ")"
    if k == "meth":
        args = [to_erg_expr(a) for a in e[3]] + [f"{n} := {to_erg_expr(v)}" for n, v in e[4]]
        return f"{to_erg_expr(e[1])}.{e[2]}(" + ", ".join(args) + ")"
    if k == "if":
        a = to_erg_expr(e[2])
        if e[4] in (NAT, INT) and not BARE_NUMERIC_IF[0]:
            # `if` with literal arms is typed as an enum ({1, 2}); the checker then mistypes arithmetic on it (listed
            # finding, exercised separately).  Passing one arm through an Int -> Int function makes the type Int.
            a = f"idi_({a})"
        return f"if({to_erg_expr(e[1])}, do {a}, do {to_erg_expr(e[3])})"
    if k == "idx":
        return f"{to_erg_expr(e[1])}[{to_erg_expr(e[2])}]"
    if k == "interp":
        out = ['"']
        for kind, p in e[1]:
            if kind == "text":
                out.append(erg_str(p)[1:-1])
            else:
                out.append("\\{" + to_erg_expr(p) + "}")
        out.append('"')
        return "".join(out)
    if k == "list":
        return "[" + ", ".join(to_erg_expr(x) for x in e[1]) + "]"
    if k == "tuple":
        return "(" + ", ".join(to_erg_expr(x) for x in e[1]) + ")"
    raise ValueError(k)


_TMP = [0]
BARE_NUMERIC_IF = [False]
SENTINEL = "<<<FRAG-BEGIN>>>"
ERG_PRELUDE = 'idi_(x: Int): Int = x\nidf_(x: Float): Float = x\nprint!("' + SENTINEL + '")\n'
PY_PRELUDE = 'import sys\ndef idi_(x): return x\nprint("' + SENTINEL + '")\n'


def _tmp():
    """Names for printer-introduced temporaries (a block-taking procedure's first argument must not start with `(`)."""
    _TMP[0] += 1
    return f"tmp{_TMP[0]}_"


MONO_OPERANDS = [True]


def erg_operand(x):
    """Operand of an arithmetic operator.  In the main workload every operand that is not a literal, another arithmetic
    expression or a call of a user function with a declared return type is passed through idi_/idf_ (Int -> Int,
    Float -> Float identities), so arithmetic only meets monomorphic operand types.  Arithmetic directly on values whose
    inferred type is an enum, a union or a still-free type variable (if-expressions, elements of mixed lists, loop
    variables) is mistyped by the checker (listed finding; exercised with MONO_OPERANDS off)."""
    txt = to_erg_expr(x)
    if not MONO_OPERANDS[0]:
        return txt
    if x[0] in ("lit", "bin", "un", "ucall"):
        return txt
    t = etype(x)
    if t in (NAT, INT):
        return f"idi_({txt})"
    if t == FLOAT:
        return f"idf_({txt})"
    return txt


def erg_pat(p):
    if isinstance(p, str):
        return p
    if p[0] == "ptuple":
        return "(" + ", ".join(erg_pat(x) for x in p[1]) + ")"
    if p[0] == "plist":
        return "[" + ", ".join(erg_pat(x) for x in p[1]) + "]"
    raise ValueError(p)


def to_erg(stmts, ind=0, top=False):
    pad = "    " * ind
    out = []
    if top:
        _TMP[0] = 0
        return ERG_PRELUDE + to_erg(stmts, ind)
    for s in stmts:
        k = s[0]
        if k == "let":
            ann = f": {ERG_TY[s[2]]}" if s[2] else ""
            out.append(f"{pad}{s[1]}{ann} = {to_erg_expr(s[3])}")
        elif k == "print":
            # call syntax with parentheses: `print! (a + b), c` would be the tuple `(print!(a + b), c)`
            out.append(f"{pad}print!(" + ", ".join(to_erg_expr(e) for e in s[1]) + ")")
        elif k == "pat":
            out.append(f"{pad}{erg_pat(s[1])} = {to_erg_expr(s[2])}")
        elif k == "assert":
            out.append(f"{pad}assert({to_erg_expr(s[1])})")
        elif k == "exit":
            out.append(f"{pad}exit {s[1]}")
        elif k == "pcall":
            out.append(f"{pad}{s[1]}(" + ", ".join(to_erg_expr(a) for a in s[2]) + ")")
        elif k == "if!":
            tmp = _tmp()
            out.append(f"{pad}{tmp} = {to_erg_expr(s[1])}")
            out.append(f"{pad}if! {tmp}:")
            out.append(f"{pad}    do!:")
            out.append(to_erg(s[2], ind + 2))
            out.append(f"{pad}    do!:")
            out.append(to_erg(s[3], ind + 2))
        elif k == "for_range":
            op = ".." if s[4] else "..<"
            out.append(f"{pad}for! {s[2]}{op}{s[3]}, {s[1]} =>")
            out.append(to_erg(s[5], ind + 1))
        elif k == "for_list":
            tmp = _tmp()
            out.append(f"{pad}{tmp} = {to_erg_expr(s[2])}")
            out.append(f"{pad}for! {tmp}, {s[1]} =>")
            out.append(to_erg(s[3], ind + 1))
        elif k == "while":
            out.append(f"{pad}{s[1]} = !0")
            out.append(f"{pad}while! do!({s[1]} < {s[2]}), do!:")
            out.append(to_erg(s[3], ind + 1))
            out.append(f"{pad}    {s[1]}.inc!()")
        elif k == "def":
            _, name, params, ret, body, res, oneliner, unused = s
            ps = ", ".join(f"{n}: {ERG_TY[t]}" for n, t in params)
            head = f"{pad}{name}({ps})" + (f": {ERG_TY[ret]}" if ret else "")
            if oneliner:
                out.append(f"{head} = {to_erg_expr(res)}")
            else:
                out.append(f"{head} =")
                out.append(to_erg(body, ind + 1)) if body else None
                for u in unused:
                    out.append(f"{pad}    _ = {u}")
                out.append(f"{pad}    {to_erg_expr(res)}")
        elif k == "recdef":
            _, name, p, kind = s
            if kind == "fact":
                out.append(f"{pad}{name}({p}: Int): Int =")
                out.append(f"{pad}    if {p} <= 0, do 1, do {p} * {name}({p} - 1)")
            elif kind == "sum":
                out.append(f"{pad}{name}({p}: Int): Int =")
                out.append(f"{pad}    if {p} <= 0, do 0, do {p} + {name}({p} - 1)")
            else:
                out.append(f"{pad}{name}({p}: Int): Int =")
                out.append(f"{pad}    if {p} <= 1, do {p}, do {name}({p} - 1) + {name}({p} - 2)")
        elif k == "proc":
            _, name, params, body = s
            ps = ", ".join(f"{n}: {ERG_TY[t]}" for n, t in params)
            out.append(f"{pad}{name}({ps}) =")
            out.append(to_erg(body, ind + 1))
        elif k == "lamdef":
            _, name, p, t, body = s
            out.append(f"{pad}{name} = ({p}: {ERG_TY[t]}) -> {to_erg_expr(body)}")
        elif k == "raw":
            out += [pad + line for line in s[1].split("\n")]
        else:
            raise ValueError(k)
    return "\n".join(x for x in out if x is not None)


# ---------------------------------------------------------------------- Python reading
def to_py_expr(e):
    k = e[0]
    if k == "lit":
        t, v = e[1], e[2]
        if t == FLOAT:
            return f"({v!r})"
        if t == STR:
            return repr(v)
        if t == BOOL:
            return "True" if v else "False"
        return f"({v})"
    if k == "var":
        return pyname(e[1])
    if k == "bin":
        op = {"&&": "&", "||": "|", "^^": "^"}.get(e[1], e[1])
        return f"({to_py_expr(e[2])} {op} {to_py_expr(e[3])})"
    if k == "un":
        return f"(-{to_py_expr(e[2])})"
    if k == "cmp":
        return f"({to_py_expr(e[2])} {e[1]} {to_py_expr(e[3])})"
    if k == "bool":
        return f"({to_py_expr(e[2])} {e[1]} {to_py_expr(e[3])})"
    if k == "not":
        return f"(not {to_py_expr(e[1])})"
    if k in ("call", "ucall"):
        return f"{pyname(e[1])}(" + ", ".join(to_py_expr(a) for a in e[2]) + ")"
    if k == "meth":
        args = [to_py_expr(a) for a in e[3]] + [f"{n}={to_py_expr(v)}" for n, v in e[4]]
        return f"{to_py_expr(e[1])}.{e[2]}(" + ", ".join(args) + ")"
    if k == "if":
        return f"({to_py_expr(e[2])} if {to_py_expr(e[1])} else {to_py_expr(e[3])})"
    if k == "idx":
        return f"{to_py_expr(e[1])}[{to_py_expr(e[2])}]"
    if k == "interp":
        parts = []
        for kind, p in e[1]:
            if kind == "text":
                parts.append(repr(p))
            else:
                parts.append(f"str({to_py_expr(p)})")
        return "(" + " + ".join(parts or ["''"]) + ")"
    if k == "list":
        return "[" + ", ".join(to_py_expr(x) for x in e[1]) + "]"
    if k == "tuple":
        return "(" + ", ".join(to_py_expr(x) for x in e[1]) + ",)"
    raise ValueError(k)


def pyname(n):
    return n.rstrip("!") + ("_proc" if n.endswith("!") else "")


def py_pat(p):
    if isinstance(p, str):
        return pyname(p)
    return "(" + ", ".join(py_pat(x) for x in p[1]) + ",)"


def to_py(stmts, ind=0, top=True):
    pad = "    " * ind
    out = []
    if top:
        return PY_PRELUDE + to_py(stmts, ind, False)
    for s in stmts:
        k = s[0]
        if k == "let":
            out.append(f"{pad}{pyname(s[1])} = {to_py_expr(s[3])}")
        elif k == "print":
            out.append(f"{pad}print(" + ", ".join(to_py_expr(e) for e in s[1]) + ")")
        elif k == "pat":
            out.append(f"{pad}{py_pat(s[1])} = {to_py_expr(s[2])}")
        elif k == "assert":
            out.append(f"{pad}assert {to_py_expr(s[1])}")
        elif k == "exit":
            out.append(f"{pad}sys.exit({s[1]})")
        elif k == "pcall":
            out.append(f"{pad}{pyname(s[1])}(" + ", ".join(to_py_expr(a) for a in s[2]) + ")")
        elif k == "if!":
            out.append(f"{pad}if {to_py_expr(s[1])}:")
            out.append(to_py(s[2], ind + 1, False))
            out.append(f"{pad}else:")
            out.append(to_py(s[3], ind + 1, False))
        elif k == "for_range":
            hi = s[3] + 1 if s[4] else s[3]
            out.append(f"{pad}for {s[1]} in range({s[2]}, {hi}):")
            out.append(to_py(s[5], ind + 1, False))
        elif k == "for_list":
            out.append(f"{pad}for {s[1]} in {to_py_expr(s[2])}:")
            out.append(to_py(s[3], ind + 1, False))
        elif k == "while":
            out.append(f"{pad}{s[1]} = 0")
            out.append(f"{pad}while {s[1]} < {s[2]}:")
            out.append(to_py(s[3], ind + 1, False))
            out.append(f"{pad}    {s[1]} += 1")
        elif k == "def":
            _, name, params, ret, body, res, oneliner, unused = s
            out.append(f"{pad}def {name}(" + ", ".join(n for n, _ in params) + "):")
            if body:
                out.append(to_py(body, ind + 1, False))
            out.append(f"{pad}    return {to_py_expr(res)}")
        elif k == "recdef":
            _, name, p, kind = s
            out.append(f"{pad}def {name}({p}):")
            if kind == "fact":
                out.append(f"{pad}    return 1 if {p} <= 0 else {p} * {name}({p} - 1)")
            elif kind == "sum":
                out.append(f"{pad}    return 0 if {p} <= 0 else {p} + {name}({p} - 1)")
            else:
                out.append(f"{pad}    return {p} if {p} <= 1 else {name}({p} - 1) + {name}({p} - 2)")
        elif k == "proc":
            _, name, params, body = s
            out.append(f"{pad}def {pyname(name)}(" + ", ".join(n for n, _ in params) + "):")
            out.append(to_py(body, ind + 1, False))
        elif k == "lamdef":
            _, name, p, t, body = s
            out.append(f"{pad}{name} = lambda {p}: {to_py_expr(body)}")
        elif k == "raw":
            out += [pad + line for line in s[2].split("\n")]
        else:
            raise ValueError(k)
    return "\n".join(out)


def generate(seed_obj, opts=None):
    rng = seed_obj if isinstance(seed_obj, random.Random) else random.Random(seed_obj)
    g = Gen(rng, opts)
    tree = g.program()
    return tree


def skeleton(stmts):
    """A coarse shape of the program (statement kinds, nested), used to count distinct cases."""
    out = []
    for s in stmts:
        k = s[0]
        if k in ("if!",):
            out.append((k, skeleton(s[2]), skeleton(s[3])))
        elif k == "for_range":
            out.append((k, skeleton(s[5])))
        elif k in ("for_list", "while"):
            out.append((k, skeleton(s[3])))
        elif k == "let":
            out.append((k, s[3][0], etype(s[3])))
        elif k == "print":
            out.append((k, tuple(etype(e) for e in s[1])))
        else:
            out.append((k,))
    return tuple(out)
