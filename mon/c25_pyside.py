"""Runs inside a target CPython: drives the REAL MessageStream class of src/scripts/repl_server.py (extracted with ast, not
copied) over a fake socket.  argv: repl_server.py path, seed, n.  Prints one JSON document."""
import ast, json, random, sys

path, seed, n = sys.argv[1], sys.argv[2], int(sys.argv[3])
src = open(path, encoding="utf-8").read()
tree = ast.parse(src)
cls = [node for node in tree.body if isinstance(node, ast.ClassDef) and node.name == "MessageStream"]
assert cls, "MessageStream class not found in repl_server.py"
ns = {}
exec(compile(ast.Module(body=cls, type_ignores=[]), path, "exec"), ns)
MessageStream = ns["MessageStream"]


class FakeSocket:
    def __init__(self, incoming=b"", split=None, rng=None):
        self.incoming = bytearray(incoming)
        self.sent = bytearray()
        self.split = split      # None: full reads; "random": 1..n bytes per recv
        self.rng = rng

    def recv(self, n):
        if n <= 0 or not self.incoming:
            return b""
        k = min(n, len(self.incoming))
        if self.split == "random":
            k = self.rng.randint(1, k)
        out = bytes(self.incoming[:k])
        del self.incoming[:k]
        return out

    def send(self, b):
        self.sent.extend(b)
        return len(b)

    def sendall(self, b):
        self.sent.extend(b)

    def close(self):
        pass


def ref_encode(inst, data):
    b = data.encode("utf-8")
    return bytes([inst]) + len(b).to_bytes(2, "big") + b


def ref_decode_all(wire):
    out, i = [], 0
    while i < len(wire):
        inst = wire[i]
        ln = int.from_bytes(wire[i + 1:i + 3], "big")
        out.append((inst, bytes(wire[i + 3:i + 3 + ln]).decode("utf-8", errors="replace")))
        i += 3 + ln
    return out


ALPH = ["a", "b", "z", " ", "\n", "é", "ß", "日", "本", "😀", "x", "0", '"', "\\"]


def gen_text(rng, size):
    out, total = [], 0
    while True:
        ch = rng.choice(ALPH if rng.random() < 0.5 else ["a", "b", "c"])
        b = len(ch.encode("utf-8"))
        if total + b > size:
            break
        out.append(ch)
        total += b
    return "".join(out)


rng = random.Random(seed)
results = []
SIZES = [0, 1, 2, 3, 10, 100, 255, 256, 1000, 4096, 65534, 65535]
for case in range(n):
    k = rng.randint(1, 6)
    msgs = []
    for j in range(k):
        size = rng.choice(SIZES) if rng.random() < 0.7 else rng.randint(0, 3000)
        uid = f"{case}.{j}:"
        msgs.append((rng.choice([1, 2, 3, 4, 6]), (uid + gen_text(rng, max(0, size - len(uid))))[: max(size, 0)] if size else ""))
    wire = b"".join(ref_encode(i, d) for i, d in msgs)
    for regime in ("full", "random"):
        sock = FakeSocket(wire, None if regime == "full" else "random", rng)
        ms = MessageStream(sock)
        got = []
        err = None
        try:
            for _ in msgs:
                inst, data = ms.recv_msg()
                got.append([inst, data])
        except Exception as e:
            err = type(e).__name__ + ": " + str(e)[:80]
        ok = err is None and got == [list(m) for m in msgs]
        results.append({"dir": "recv", "regime": regime, "ok": ok, "err": err, "sizes": [len(d.encode()) for _, d in msgs],
                        "first_bad": next((i for i, (g, m) in enumerate(zip(got, msgs)) if g != list(m)), len(got)) if not ok else None})
    # send side
    sock = FakeSocket()
    ms = MessageStream(sock)
    err = None
    try:
        for inst, data in msgs:
            ms.send_msg(inst, data)
    except Exception as e:
        err = type(e).__name__ + ": " + str(e)[:80]
    dec = ref_decode_all(bytes(sock.sent)) if err is None else []
    ok = err is None and dec == msgs
    results.append({"dir": "send", "regime": "full", "ok": ok, "err": err, "sizes": [len(d.encode()) for _, d in msgs],
                    "wire_hex": bytes(sock.sent).hex() if len(sock.sent) < 3000 else None,
                    "msgs": [[i, d] for i, d in msgs] if len(sock.sent) < 3000 else None})
# oversize send
sock = FakeSocket()
ms = MessageStream(sock)
try:
    ms.send_msg(1, "x" * 70000)
    ms.send_msg(1, "after")
    dec = ref_decode_all(bytes(sock.sent))
    results.append({"dir": "send-oversize", "ok": dec == [(1, "x" * 70000), (1, "after")], "err": None if len(dec) == 2 else "desync"})
except Exception as e:
    results.append({"dir": "send-oversize", "ok": False, "err": type(e).__name__ + ": " + str(e)[:80]})
print(json.dumps({"version": list(sys.version_info[:2]), "results": results}))
