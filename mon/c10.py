"""C10 Parsing is deterministic and insensitive to comments and layout (metamorphic)."""
from . import common, frag, c08

LEVEL = "exploration"
RULE = ("base texts = corpus files + Frag programs; for each, K variants built ONLY with the rewrites the property lists: end-of-line "
        "comments, whole-line comments, inline #[ ]# comments in gaps between tokens (token boundaries taken from the real lexer), "
        "blank lines, trailing spaces, backslash-newline after a binary operator, redundant parentheses around a literal/identifier "
        "operand of a binary operator; the position-free dump of the real parser (`vh parse`) must be identical for base and variant, "
        "and identical when the same text is parsed twice in different processes. distinct = distinct (base, rewrite-kind set) pairs")
MANIFEST = {
    "text": "Metamorphic monitoring: each rewrite is meaning-preserving by the property's own list, so any change of the parser's "
            "position-free tree dump is a violation; determinism is checked by parsing every base text in two processes.",
    "technique": "metamorphic monitor over the real parser's tree dump (in-process harness), token gaps from the real lexer",
    "note": "spacing around +/- is never altered (Erg is space-sensitive there by design); whitespace-only lines are empty lines only",
}
BINOPS = {"Plus", "Minus", "Star", "Slash", "FloorDiv", "Mod", "Pow", "DblEq", "NotEq", "Less", "Gre", "LessEq", "GreEq", "AndOp", "OrOp"}
OPERAND_KINDS = {"NatLit", "Symbol", "RatioLit"}
KEYWORDS = {"do", "do!", "if", "if!", "for!", "while!", "not", "and", "or", "in", "notin", "as", "assert", "print!", "match", "match!",
            "Class", "Trait", "import", "pyimport", "exit", "ref", "ref!", "True", "False", "None", "is!", "isnot!"}


def variants(src, toks, rng, k):
    """Build k variants of src; toks = real lexer tokens (with positions)."""
    lines = src.split("\n")
    # lines that are safe to touch: no token of a multi-line kind covers them
    multiline = set()
    for t in toks:
        if "\n" in t["c"] and t["k"] in ("StrLit", "DocComment", "StrInterpLeft", "StrInterpMid", "StrInterpRight"):
            for ln in range(t["l"], t["l"] + t["c"].count("\n") + 1):
                multiline.add(ln)
    by_line = {}
    for t in toks:
        if t["k"] in ("Newline", "Indent", "Dedent", "EOF", "BOF"):
            continue
        by_line.setdefault(t["l"], []).append(t)
    code_lines = [ln for ln in by_line if ln not in multiline and 1 <= ln <= len(lines)]
    out = []
    for _ in range(k):
        new = list(lines)
        kinds = set()
        edits = []      # (line, col, replacement_len_removed, text) applied right-to-left per line
        extra_lines = {}  # line index -> list of lines to insert BEFORE it
        for _ in range(rng.randint(1, 6)):
            kind = rng.choice(["eol", "line", "inline", "inline0", "blank", "trail", "cont", "paren"])
            if not code_lines:
                break
            ln = rng.choice(code_lines)
            ts = by_line[ln]
            text = lines[ln - 1]
            if text.rstrip(" ").endswith("\\"):
                continue        # the base line is itself continued with a backslash: nothing may follow it
            if kind in ("line", "blank"):
                # listed findings (exercised by KNOWN_CASES): a comment/blank line right after a decorator line or after a
                # `Name.` methods header is rejected
                prev = ""
                for j in range(ln - 2, -1, -1):
                    if lines[j].strip():
                        prev = lines[j].strip()
                        break
                if prev.endswith("\\"):
                    continue    # inside a backslash continuation of the base text
                if prev.startswith("@") or prev.endswith(".") or prev.endswith("::") or (prev.endswith("]") and "::[" in prev):
                    continue
            if kind == "eol":
                last = ts[-1]
                if last["k"] in ("StrInterpLeft", "StrInterpMid"):
                    continue
                edits.append((ln, len(text), 0, rng.choice([" # c", "# c", "  # a \"quoted\" # thing", " #"])))
            elif kind == "line":
                indent = len(text) - len(text.lstrip(" "))
                extra_lines.setdefault(ln, []).append(" " * indent + rng.choice(["# comment", "#", "# x = 1"]))
            elif kind == "blank":
                extra_lines.setdefault(ln, []).append("")
            elif kind == "trail":
                if ts[-1]["k"] in ("StrInterpLeft", "StrInterpMid"):
                    continue
                edits.append((ln, len(text), 0, " " * rng.randint(1, 3)))
            elif kind == "inline":
                gaps = [(a, b) for a, b in zip(ts, ts[1:]) if b["b"] - a["e"] >= 1 and a["k"] not in ("StrInterpLeft", "StrInterpMid")
                        and text[a["e"]:b["b"]].strip(" ") == ""]
                if not gaps:
                    continue
                a, b = rng.choice(gaps)
                edits.append((ln, b["b"], 0, rng.choice(["#[ c ]# ", "#[c]# ", "#[ a #[ nested ]# b ]# "])))
            elif kind == "inline0":
                # an inline comment before the first token of the line (after the indentation)
                indent = len(text) - len(text.lstrip(" "))
                if ts[0]["b"] != indent or ts[0]["k"] in ("StrInterpMid", "StrInterpRight"):
                    continue
                edits.append((ln, indent, 0, rng.choice(["#[ c ]# ", "#[c]# "])))
            elif kind == "cont":
                cands = [(a, b) for a, b in zip(ts, ts[1:]) if a["k"] in BINOPS and b["b"] - a["e"] >= 1
                         and text[a["e"]:b["b"]].strip(" ") == "" and a is not ts[0]]
                if not cands:
                    continue
                a, b = rng.choice(cands)
                indent = len(text) - len(text.lstrip(" "))
                edits.append((ln, a["e"], b["b"] - a["e"], " \\\n" + " " * (indent + 4)))
            elif kind == "paren":
                cands = []
                for i, t in enumerate(ts):
                    if t["k"] not in OPERAND_KINDS or t["c"] in KEYWORDS or t["c"].endswith("!"):
                        continue
                    prev_op = i > 0 and ts[i - 1]["k"] in BINOPS and i - 1 > 0
                    next_op = i + 1 < len(ts) and ts[i + 1]["k"] in BINOPS
                    nxt = ts[i + 1] if i + 1 < len(ts) else None
                    if nxt is not None and nxt["k"] in ("LParen", "Dot", "LSqBr", "DblColon", "Colon", "Assign", "Walrus"):
                        continue
                    if i > 0 and ts[i - 1]["k"] in ("Dot", "DblColon"):
                        continue
                    if text[t["b"]:t["b"] + len(t["c"])] != t["c"]:
                        continue
                    if prev_op and (next_op or nxt is None or nxt["k"] in ("RParen", "Comma", "RSqBr")):
                        cands.append(t)
                if not cands:
                    continue
                t = rng.choice(cands)
                edits.append((ln, t["b"], len(t["c"]), "(" + t["c"] + ")"))
            kinds.add(kind)
        # apply edits per line from right to left; drop overlapping ones
        per_line = {}
        for e in edits:
            per_line.setdefault(e[0], []).append(e)
        for ln, es in per_line.items():
            es.sort(key=lambda e: -e[1])
            text = new[ln - 1]
            last_start = None
            for (_, col, rem, rep_text) in es:
                if last_start is not None and col + rem > last_start:
                    continue
                if col == len(lines[ln - 1]) and any(e2[1] == col and e2 is not None for e2 in es if e2[3] != rep_text and e2[1] == col):
                    # two end-of-line edits: keep only the first one seen
                    pass
                text = text[:col] + rep_text + text[col + rem:]
                last_start = col
            new[ln - 1] = text
        final = []
        for i, l in enumerate(new, start=1):
            for x in extra_lines.get(i, []):
                final.append(x)
            final.append(l)
        if kinds:
            out.append({"src": "\n".join(final), "kinds": sorted(kinds)})
    return out


# ---------------------------------------------------------------- redundant parentheses around a sub-expression operand
def chain_variants(rng, n):
    """Unparenthesised chains of binary operators; a variant wraps one operand that the precedence table makes a
    subtree anyway (so the parentheses are redundant)."""
    from .c11 import BIN, BINOPS as OPS
    out = []
    names = ["a", "b", "c", "d", "e", "f"]
    for _ in range(n):
        k = rng.randint(2, 5)
        ops = [rng.choice(OPS) for _ in range(k)]
        atoms = names[:k + 1]
        # precedence climbing with spans (all operators group to the left)
        pos = [0]

        def parse(minp):
            lo = pos[0]
            node = (lo, lo)
            while pos[0] < k and BIN[ops[pos[0]]] >= minp:
                op = ops[pos[0]]
                pos[0] += 1
                rhs = parse(BIN[op] + 1)
                node = (node[0], rhs[1])
                spans.append(node)
            return node
        spans = []
        parse(0)
        inner = [sp for sp in spans if sp != (0, k)]
        toks = []
        for i, a in enumerate(atoms):
            toks.append(a)
            if i < k:
                toks.append(ops[i])
        base = "y = " + " ".join(toks) + "\n"
        cands = inner + [(0, k)]
        lo, hi = rng.choice(cands)
        vt = []
        for i, a in enumerate(atoms):
            vt.append(("(" if i == lo else "") + a + (")" if i == hi else ""))
            if i < k:
                vt.append(ops[i])
        out.append((base, "y = " + " ".join(vt) + "\n"))
    return out


def judge_chains(ctx, rep, pairs):
    reqs = []
    for b, v in pairs:
        reqs += [{"src": b}, {"src": v}]
    res, _ = ctx.vh_lines("parse", reqs, timeout=600)
    if len(res) != len(reqs):
        raise common.Inconclusive("vh parse answered too few chain requests")
    for i, (b, v) in enumerate(pairs):
        rb, rv = res[2 * i], res[2 * i + 1]
        case = {"src": v, "base": b, "kinds": ["paren-operand"]}
        if not rb.get("ok"):
            rep.declined += 1
        elif not rv.get("ok") or rv.get("ast") != rb.get("ast"):
            rep.violation("tree-changed:paren-operand", f"redundant parentheses changed the tree: {b.strip()!r} -> {rb.get('ast')!r}; {v.strip()!r} -> {rv.get('ast')!r}", case)
        else:
            rep.ok(("chain", b), {"base": b.strip(), "variant": v.strip()} if i < 2 else None)
            rep.count("rewrite_paren_operand")


# exact inputs of listed findings: (sig, base, variant)
KNOWN_CASES = [
    ("known:comment-line-after-decorator", "@Inheritable\nC = Class {x = Int}\n", "@Inheritable\n# c\nC = Class {x = Int}\n"),
    ("known:blank-line-after-decorator", "@Inheritable\nC = Class {x = Int}\n", "@Inheritable\n\nC = Class {x = Int}\n"),
    ("known:blank-line-after-methods-header", "C = Class {x = Int}\nC.\n    f self = 1\n", "C = Class {x = Int}\nC.\n\n    f self = 1\n"),
    ("known:unindented-comment-after-methods-header", "C = Class {x = Int}\nC.\n    f self = 1\n", "C = Class {x = Int}\nC.\n# c\n    f self = 1\n"),
]


def bases(ctx):
    out = []
    for f in c08.corpus_files(ctx):
        try:
            t = open(f, encoding="utf-8").read()
        except (OSError, UnicodeDecodeError):
            continue
        if "\r" not in t and "\t" not in t:
            out.append(("corpus:" + f.split("/")[-1], t))
    for i in range(ctx.n(250, 8000)):
        out.append((f"frag:{ctx.seed}:{i}", frag.to_erg(frag.generate(f"C10:{ctx.seed}:{i}"), top=True) + "\n"))
    return out


def judge_bases(ctx, rep, part):
    rng = ctx.rng("v" + part[0][0])
    lexed, p1 = ctx.vh_lines("lex", [{"src": t} for _, t in part], timeout=900)
    parsed, p2 = ctx.vh_lines("parse", [{"src": t} for _, t in part], timeout=900)
    parsed2, p3 = ctx.vh_lines("parse", [{"src": t} for _, t in part], timeout=900)
    if not (len(lexed) == len(parsed) == len(parsed2) == len(part)):
        raise common.Inconclusive(f"vh lex/parse answered {len(lexed)}/{len(parsed)}/{len(parsed2)} of {len(part)}")
    jobs = []
    for (name, text), lx, pa, pb in zip(part, lexed, parsed, parsed2):
        if "panic" in pa or "panic" in lx or not lx.get("ok") or not pa.get("ok"):
            rep.declined += 1      # base text does not parse: nothing to compare (totality is C08/C09)
            continue
        if pa.get("ast") != pb.get("ast") or pa.get("ok") != pb.get("ok"):
            rep.violation("nondeterministic", f"{name}: two parses of the same text differ", {"src": text, "kinds": ["same-text"], "base": text})
            continue
        rep.ok(("det", name))
        for v in variants(text, lx["tokens"], rng, ctx.n(6, 12)):
            jobs.append((name, text, pa["ast"], v))
    if not jobs:
        return
    res, p4 = ctx.vh_lines("parse", [{"src": j[3]["src"]} for j in jobs], timeout=900)
    if len(res) != len(jobs):
        raise common.Inconclusive(f"vh parse answered {len(res)} of {len(jobs)} variants")
    for (name, base, base_ast, v), r in zip(jobs, res):
        case = {"src": v["src"], "kinds": v["kinds"], "base": base}
        kinds = "+".join(v["kinds"])
        if "panic" in r:
            rep.violation("variant-panic:" + common._relsrc(r["panic"].split(": ")[0]), f"{name} [{kinds}]: {r['panic'][:200]}", case)
        elif not r.get("ok"):
            msg = r["errors"][0]["msg"][:80] if r.get("errors") else "?"
            rep.violation("variant-rejected:" + blame(v["kinds"]), f"{name} [{kinds}]: layout variant rejected: {msg} at {r['errors'][0]['loc'] if r.get('errors') else ''}", case)
        elif r["ast"] != base_ast:
            rep.violation("tree-changed:" + blame(v["kinds"]), f"{name} [{kinds}]: tree differs from the base text's tree\n{first_diff(base_ast, r['ast'])}", case)
        else:
            rep.ok((name, kinds), {"base": name, "rewrites": v["kinds"], "variant_head": v["src"][:300]} if len(v["src"]) < 600 else None)
            for k in v["kinds"]:
                rep.count("rewrite_" + k)


def blame(kinds):
    return kinds[0] if len(kinds) == 1 else "mixed"


def first_diff(a, b):
    la, lb = a.split("\n"), b.split("\n")
    for i, (x, y) in enumerate(zip(la, lb)):
        if x != y:
            return f"line {i}: base {x[:160]!r} / variant {y[:160]!r}"
    return f"length {len(la)} vs {len(lb)}"


def run(ctx, rep):
    bs = bases(ctx)
    rep.extra["bases"] = len(bs)
    common.run_parallel(rep, bs, lambda sr, part: judge_bases(ctx, sr, part), nparts=common.NCPU * 2)
    pairs = chain_variants(ctx.rng("chains"), ctx.n(4000, 100000))
    common.run_parallel(rep, pairs, lambda sr, part: judge_chains(ctx, sr, part))
    for sig, base, var in KNOWN_CASES:
        res, _ = ctx.vh_lines("parse", [{"src": base}, {"src": var}], timeout=120)
        if len(res) == 2 and res[0].get("ok") and (not res[1].get("ok") or res[1].get("ast") != res[0].get("ast")):
            msg = res[1]["errors"][0]["msg"] if res[1].get("errors") else "tree differs"
            rep.violation(sig, f"variant {var!r} of {base!r}: {msg}", {"src": var, "base": base, "kinds": [sig]})
    rep.min_evaluations = 500


def replay(ctx, rep, case):
    res, _ = ctx.vh_lines("parse", [{"src": case["base"]}, {"src": case["src"]}], timeout=300)
    if len(res) == 2 and res[0].get("ok") and (not res[1].get("ok") or res[0]["ast"] != res[1].get("ast")):
        rep.violation("tree-changed:" + blame(case["kinds"]), "replayed: variant differs from base", case)
    else:
        rep.ok(("replay",))
