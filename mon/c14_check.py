"""Runs under the TARGET interpreter.  Structural validation of every code object (recursively) of .pyc files, using that
interpreter's own dis tables and dis.stack_effect.  argv: nlines_json pyc...   (nlines_json maps pyc path -> number of source lines)
Also: `--calibrate file.py...` compiles the given sources with the interpreter itself and checks them the same way."""
import dis, json, marshal, sys, types

PY = sys.version_info[:2]
UNCOND = {"JUMP_FORWARD", "JUMP_ABSOLUTE", "JUMP_BACKWARD", "JUMP_BACKWARD_NO_INTERRUPT", "RETURN_VALUE", "RAISE_VARARGS", "RERAISE",
          "BREAK_LOOP", "CONTINUE_LOOP"}
# 3.7 has no jump= argument: per-edge effects of its branching opcodes
EFFECT_37 = {  # opname: (fallthrough, jump)
    "FOR_ITER": (1, -1), "JUMP_IF_TRUE_OR_POP": (-1, 0), "JUMP_IF_FALSE_OR_POP": (-1, 0), "POP_JUMP_IF_FALSE": (-1, -1),
    "POP_JUMP_IF_TRUE": (-1, -1), "SETUP_LOOP": (0, 0), "SETUP_EXCEPT": (0, 6), "SETUP_FINALLY": (0, 6), "SETUP_WITH": (1, 7),
    "SETUP_ASYNC_WITH": (0, 6), "JUMP_FORWARD": (0, 0), "JUMP_ABSOLUTE": (0, 0), "CONTINUE_LOOP": (0, 0),
}


def effects(ins):
    op, arg = ins.opcode, ins.arg
    if ins.opname == "EXTENDED_ARG":
        return 0, 0
    if PY == (3, 7):
        if ins.opname in EFFECT_37:
            return EFFECT_37[ins.opname]
        e = dis.stack_effect(op, arg) if op >= dis.HAVE_ARGUMENT else dis.stack_effect(op)
        return e, e
    a = arg if op >= dis.HAVE_ARGUMENT else None
    return dis.stack_effect(op, a, jump=False), dis.stack_effect(op, a, jump=True)


def check_code(co, nlines, problems, path):
    try:
        instrs = list(dis.get_instructions(co))
    except Exception as e:
        problems.append(("undecodable", type(e).__name__, str(e)[:80], path))
        return
    offsets = {i.offset for i in instrs}
    size = len(co.co_code)
    idx = {i.offset: k for k, i in enumerate(instrs)}
    nlocals = len(co.co_varnames)
    nfree = len(co.co_cellvars) + len(co.co_freevars)
    for i in instrs:
        op = i.opcode
        if op in dis.hasjrel or op in dis.hasjabs:
            t = i.argval
            if not isinstance(t, int) or t not in offsets or t >= size:
                problems.append(("jump-target", i.opname, f"offset {i.offset} -> {t} (code size {size})", path))
        if op in dis.hasconst and i.arg >= len(co.co_consts):
            problems.append(("index", i.opname, f"const {i.arg} >= {len(co.co_consts)}", path))
        if op in dis.hasname:
            a = i.arg >> 1 if (PY >= (3, 11) and i.opname == "LOAD_GLOBAL") else i.arg
            if a >= len(co.co_names):
                problems.append(("index", i.opname, f"name {a} >= {len(co.co_names)}", path))
        if op in dis.haslocal and PY < (3, 11) and i.arg >= nlocals:
            problems.append(("index", i.opname, f"local {i.arg} >= {nlocals}", path))
        if op in dis.hasfree and PY < (3, 11) and i.arg >= nfree:
            problems.append(("index", i.opname, f"free {i.arg} >= {nfree}", path))
    # stack depth by abstract interpretation
    opnames = {i.opname for i in instrs}
    legacy_exc = PY <= (3, 8) and opnames & {"SETUP_FINALLY", "SETUP_WITH", "SETUP_EXCEPT", "END_FINALLY", "WITH_CLEANUP_START", "SETUP_ASYNC_WITH"}
    is_generator = bool(co.co_flags & (0x20 | 0x80 | 0x100 | 0x200))
    depth_at = {}
    work = [] if (legacy_exc or is_generator) else [(0, 0)]
    if legacy_exc or is_generator:
        # <= 3.8 finally/with blocks push a variable number of values (END_FINALLY), generators start with a value on the
        # stack: the simple per-edge model of dis.stack_effect does not describe them, so only the other checks apply here
        depth_at = {i.offset: 0 for i in instrs}
    if PY >= (3, 11) and not (legacy_exc or is_generator):
        try:
            for e in dis._parse_exception_table(co):
                work.append((e.target, e.depth + 1 + (1 if e.lasti else 0)))
        except Exception as ex:
            problems.append(("exception-table", "parse", str(ex)[:60], path))
    maxd = 0
    reported = set()
    while work:
        off, d = work.pop()
        if off not in idx:
            continue
        if off in depth_at:
            if depth_at[off] != d and ("join", off) not in reported and off != 0:
                reported.add(("join", off))
                problems.append(("stack-join", instrs[idx[off]].opname, f"offset {off}: depth {depth_at[off]} vs {d}", path))
            continue
        depth_at[off] = d
        i = instrs[idx[off]]
        try:
            ft, jp = effects(i)
        except ValueError as ex:
            problems.append(("stack-effect", i.opname, str(ex)[:60], path))
            continue
        maxd = max(maxd, d, d + ft, d + jp if (i.opcode in dis.hasjrel or i.opcode in dis.hasjabs) else d)
        if d + min(ft, 0) < 0 or d + ft < 0:
            if ("under", off) not in reported:
                reported.add(("under", off))
                problems.append(("stack-underflow", i.opname, f"offset {off}: depth {d} effect {ft}", path))
            continue
        if i.opcode in dis.hasjrel or i.opcode in dis.hasjabs:
            if d + jp < 0:
                problems.append(("stack-underflow", i.opname, f"offset {off} (jump edge): depth {d} effect {jp}", path))
            elif isinstance(i.argval, int):
                work.append((i.argval, d + jp))
        if i.opname not in UNCOND:
            k = idx[off] + 1
            if k < len(instrs):
                work.append((instrs[k].offset, d + ft))
            else:
                problems.append(("falls-off-end", i.opname, f"offset {off}", path))
    if maxd > co.co_stacksize:
        problems.append(("stacksize", "co_stacksize", f"needs {maxd}, declared {co.co_stacksize}", path))
    # line table
    if nlines is not None:
        try:
            if PY >= (3, 10):
                covered = {}
                for start, end, line in co.co_lines():
                    for o in range(start, end, 2):
                        covered[o] = "noline" if line is None else line    # CPython itself emits instructions without a line
                bad = [(i.offset, covered.get(i.offset, "uncovered")) for i in instrs
                       if i.offset in depth_at and (i.offset not in covered or (covered[i.offset] != "noline" and not (1 <= covered[i.offset] <= nlines)
                                                                              and not (i.offset == 0 and i.opname == "RESUME" and covered[i.offset] == 0)))]
            else:
                starts = dict(dis.findlinestarts(co))
                bad = [(o, l) for o, l in starts.items() if not (1 <= l <= nlines)]
                if 0 not in starts and instrs:
                    bad.append((0, "uncovered"))
            if bad:
                problems.append(("line-table", "lines", f"{len(bad)} instructions without a valid line, e.g. {bad[:2]} (source has {nlines} lines)", path))
        except Exception as ex:
            problems.append(("line-table", "exception", f"{type(ex).__name__}: {str(ex)[:60]}", path))
    for c in co.co_consts:
        if isinstance(c, types.CodeType):
            check_code(c, nlines, problems, path + "/" + c.co_name)


def main():
    if sys.argv[1] == "--calibrate":
        out = {}
        for f in sys.argv[2:]:
            try:
                src = open(f, encoding="utf-8", errors="replace").read()
                co = compile(src, f, "exec")
            except Exception:
                continue
            probs = []
            check_code(co, src.count("\n") + 1, probs, "<module>")
            out[f] = probs
        print(json.dumps(out))
        return
    nl = json.loads(open(sys.argv[1]).read())
    out = {}
    for pyc in sys.argv[2:]:
        probs = []
        try:
            co = marshal.loads(open(pyc, "rb").read()[16:])
            check_code(co, nl.get(pyc), probs, "<module>")
            out[pyc] = {"problems": probs, "ncode": count(co)}
        except Exception as e:
            out[pyc] = {"error": type(e).__name__ + ": " + str(e)[:100]}
    print(json.dumps(out))


def count(co):
    return 1 + sum(count(c) for c in co.co_consts if isinstance(c, types.CodeType))


main()
