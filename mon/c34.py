"""C34 Inferred types describe the values bindings hold at run time."""
import ast
import os
import random
import re

from . import common, frag, fragrun

LEVEL = "exploration"
RULE = ("generated programs of immutable top-level bindings built from literals (both signs, floats, strings, bools), arithmetic on "
        "earlier bindings, list displays, concatenation (`+`, .concat), .push, .reversed, list(map(..)), indexing with literal and "
        "bound indices, if-expressions, tuples and user functions. Observed: the type `erg --mode typecheck` reports for every "
        "top-level binding (`::name(: T) =`) and the value the binding holds when the same file is run (`repr` printed right after "
        "the binding). Oracle: an independent membership test value ∈ T for singleton/enum sets, Nat/Int/Float/Str/Bool, "
        "List(T, N) (length and elements), Tuple, unions/intersections and simple refinements; an accepted index expression must not "
        "raise IndexError. Type forms the oracle cannot read are counted and skipped. distinct = distinct (type shape, value class) pairs")
MANIFEST = {
    "text": "Every binding of every accepted generated program is checked: reported type against run-time value.",
    "technique": "runtime monitor: reported static types vs observed run-time values, independent membership oracle",
    "note": "language-server hover shows the same VarInfo type as --mode typecheck and is not exercised separately; mutable (`!`) bindings "
            "change type with every update and are not judged",
}
MARK = "<<<V>>>"

INTS = ["0", "1", "2", "3", "5", "10", "255", "65536"]
NEGS = ["-1", "-3", "-10"]


class G:
    def __init__(self, r):
        self.r = r
        self.n = 0
        self.vars = {"int": [], "float": [], "str": [], "bool": [], "list": [], "tuple": []}
        self.lens = {}
        self.lines = []
        self.funcs = []

    def fresh(self):
        self.n += 1
        return f"v{self.n}"

    def pick(self, k):
        return self.r.choice(self.vars[k]) if self.vars[k] and self.r.random() < 0.7 else None

    def int_e(self, d=0):
        r = self.r
        v = self.pick("int")
        if v and r.random() < 0.5:
            return v
        if d >= 2 or r.random() < 0.35:
            return r.choice(INTS + ["(" + n + ")" for n in NEGS])
        k = r.randrange(8)
        a, b = self.int_e(d + 1), self.int_e(d + 1)
        if k < 4:
            return f"({a} {'+-*'[k % 3]} {b})"
        if k == 4 and self.vars["list"]:
            return f"len({r.choice(self.vars['list'])})"
        if k == 5 and self.funcs:
            return f"{r.choice(self.funcs)}({a})"
        if k == 6:
            return f"({a} % {r.choice(['2', '3', '(-3)', '(-2)', '7'])})"
        return f"({a} // {r.choice(['2', '3', '(-2)'])})"

    def list_e(self, d=0):
        r = self.r
        v = self.pick("list")
        k = r.randrange(9)
        if not v or k == 0:
            return "[" + ", ".join(self.int_e(1) for _ in range(r.randrange(1, 5))) + "]"
        if k == 1:
            return f"({v} + {self.list_e(d + 1) if d < 1 else v})"
        if k == 2:
            return f"{v}.push({self.int_e(1)})"
        if k == 3:
            return f"{v}.concat({r.choice(self.vars['list'])})"
        if k == 4:
            return f"{v}.reversed()"
        if k == 5:
            return f"list(map((x_ -> x_ {r.choice(['+', '-', '*', '%', '//'])} {r.choice(INTS[1:] + ['(-2)', '(-3)'])}), {v}))"
        if k == 6:
            return f"({v}.push({self.int_e(1)}) + [{self.int_e(1)}])"
        if k == 7:
            return f"({v} + {v})"
        return "[" + ", ".join(self.int_e(1) for _ in range(r.randrange(1, 4))) + "]"

    def stmt(self):
        r = self.r
        k = r.choice(["int", "int", "list", "list", "list", "float", "str", "bool", "index", "index", "if", "tuple", "func", "ann"])
        v = self.fresh()
        if k == "int":
            self.bind(v, self.int_e(), "int")
        elif k == "list":
            self.bind(v, self.list_e(), "list")
        elif k == "float":
            self.bind(v, r.choice([f"({self.int_e(1)} / 2)", "1.5", f"({self.int_e(1)} * 0.5)", f"({r.choice(['0.25', '2.0'])} + {self.int_e(1)})",
                                   f"({self.int_e(1)} - {r.choice(['0.5', '1.5', '2.0'])})", f"({r.choice(['0.5', '2.5'])} - {self.int_e(1)})",
                                   f"[{self.int_e(1)} - 1.5, {self.int_e(1)} + 0.5][0]"]), "float")
        elif k == "str":
            self.bind(v, r.choice(['"a"', '"abc"', '("ab" + "c")', f'str({self.int_e(1)})', '"x" * 3', '"é\\"q"']), "str")
        elif k == "bool":
            self.bind(v, r.choice([f"({self.int_e(1)} < {self.int_e(1)})", "True", f"({self.int_e(1)} == {self.int_e(1)})", "(not False)"]), "bool")
        elif k == "index" and self.vars["list"]:
            l = r.choice(self.vars["list"])
            i = r.choice(["0", "1", "2", "3", "4", "5", "7"] + self.vars["int"][:3])
            self.bind(v, f"{l}[{i}]", "int")
        elif k == "if":
            self.bind(v, f"if({self.int_e(1)} < {self.int_e(1)}, do {self.int_e(1)}, do {self.int_e(1)})", "int")
        elif k == "tuple":
            self.bind(v, "(" + self.int_e(1) + ", " + r.choice(['"s"', "1.5", "True"]) + ")", "tuple")
        elif k == "func" and len(self.funcs) < 2:
            f = f"f{self.n}"
            t = r.choice(["Int", "Nat"])
            body = r.choice(["p + 1", "p * 2", "p", "abs(p)", "p - 1" if t == "Int" else "p + 2"])
            self.lines.append(f"{f}(p: {t}) = {body}")
            if t == "Int":
                self.funcs.append(f)
        elif k == "ann":
            t = r.choice(["Int", "Nat", "Float", "{1, 2, 3}", "0..10", "List(Int, 2)", "List(Int)"])
            e = self.list_e() if t.startswith("List") else self.int_e()
            self.lines.append(f"{v}: {t} = {e}")
            self.lines.append(f'print!("{MARK}", "{v}", repr({v}))')
            self.vars["list" if t.startswith("List") else ("float" if t == "Float" else "int")].append(v)
        else:
            self.bind(v, self.int_e(), "int")

    def bind(self, v, e, k):
        self.lines.append(f"{v} = {e}")
        self.lines.append(f'print!("{MARK}", "{v}", repr({v}))')
        self.vars[k].append(v)


def generate(seed):
    r = random.Random(seed)
    g = G(r)
    for _ in range(r.randrange(4, 12)):
        g.stmt()
    return f'print!("{frag.SENTINEL}")\n' + "\n".join(g.lines) + "\n"


# ------------------------------------------------------------------ type text -> membership
class Unknown(Exception):
    pass


TOK = re.compile(r'\s*("(?:\\.|[^"\\])*"|-?\d+\.\d+(?:e[+-]?\d+)?|-?\d+|[A-Za-z_%][\w%]*!?|\.\.<|<\.\.<|<\.\.|\.\.|<=|>=|==|!=|[{}()\[\],:|<>+*/-])')


def tokenize(s):
    out, i = [], 0
    s = s.strip()
    while i < len(s):
        m = TOK.match(s, i)
        if not m:
            raise Unknown("token:" + s[i:i + 10])
        out.append(m.group(1))
        i = m.end()
    return out


class P:
    def __init__(self, toks):
        self.t = toks
        self.i = 0

    def peek(self):
        return self.t[self.i] if self.i < len(self.t) else None

    def eat(self, x=None):
        tok = self.peek()
        if tok is None or (x is not None and tok != x):
            raise Unknown(f"expected {x} got {tok}")
        self.i += 1
        return tok

    def type(self):
        left = self.and_()
        while self.peek() == "or":
            self.eat()
            right = self.and_()
            left = ("or", left, right)
        return left

    def and_(self):
        left = self.atom()
        while self.peek() == "and":
            self.eat()
            left = ("and", left, self.atom())
        return left

    def atom(self):
        tok = self.peek()
        if tok == "not":
            self.eat()
            return ("not", self.atom())
        if tok == "(":
            self.eat()
            t = self.type()
            self.eat(")")
            return t
        if tok == "{":
            return self.braces()
        if tok is not None and (re.match(r'-?\d|"', tok) or tok in ("True", "False")):
            v = self.value()
            if self.peek() in ("..", "..<", "<..", "<..<"):
                op = self.eat()
                hi = self.value()
                return ("interval", v, hi, op)
            raise Unknown("bare value")
        if tok is not None and re.match(r"[A-Za-z_]", tok):
            name = self.eat()
            if self.peek() == "(":
                self.eat()
                args = []
                while self.peek() != ")":
                    args.append(self.arg())
                    if self.peek() == ",":
                        self.eat()
                self.eat(")")
                return ("app", name, args)
            return ("name", name)
        raise Unknown(f"atom {tok}")

    def arg(self):
        tok = self.peek()
        if tok == "[":      # Tuple([T1, T2])
            self.eat()
            ts = []
            while self.peek() != "]":
                ts.append(self.type())
                if self.peek() == ",":
                    self.eat()
            self.eat("]")
            return ("types", ts)
        if tok == "_":
            self.eat()
            return ("any",)
        if tok is not None and re.match(r"-?\d+$", tok):
            save = self.i
            v = self.value()
            if self.peek() in (",", ")"):
                return ("nat", v)
            self.i = save
        # either a type or an unevaluated length expression
        save = self.i
        try:
            t = self.type()
            if self.peek() in (",", ")"):
                return t
        except Unknown:
            pass
        self.i = save
        depth = 0
        while self.peek() is not None and not (depth == 0 and self.peek() in (",", ")")):
            depth += self.peek() in "([{"
            depth -= self.peek() in ")]}"
            self.eat()
        return ("expr",)

    def braces(self):
        self.eat("{")
        # refinement {I: T | pred}
        if self.i + 1 < len(self.t) and self.t[self.i + 1] == ":" and re.match(r"[A-Za-z_%]", self.t[self.i]):
            var = self.eat()
            self.eat(":")
            base = self.type()
            self.eat("|")
            pred = self.pred(var)
            self.eat("}")
            return ("refine", base, pred)
        vals = []
        while self.peek() != "}":
            vals.append(self.value())
            if self.peek() == ",":
                self.eat()
        self.eat("}")
        return ("enum", vals)

    def value(self):
        tok = self.eat()
        if tok == "[":
            vs = []
            while self.peek() != "]":
                vs.append(self.value())
                if self.peek() == ",":
                    self.eat()
            self.eat("]")
            return vs
        if tok == "(":
            vs = []
            while self.peek() != ")":
                vs.append(self.value())
                if self.peek() == ",":
                    self.eat()
            self.eat(")")
            return tuple(vs)
        if tok in ("True", "False"):
            return tok == "True"
        if tok == "-":
            v = self.value()
            if isinstance(v, (int, float)) and not isinstance(v, bool):
                return -v
            raise Unknown("neg")
        if tok.startswith('"'):
            try:
                return ast.literal_eval(tok)
            except (SyntaxError, ValueError):
                raise Unknown("string literal")
        if re.match(r"-?\d+$", tok):
            return int(tok)
        if re.match(r"-?\d+\.\d+", tok):
            return float(tok)
        raise Unknown("value " + tok)

    def pred(self, var):
        left = self.pred_and(var)
        while self.peek() == "or":
            self.eat()
            left = ("or", left, self.pred_and(var))
        return left

    def pred_and(self, var):
        left = self.pred_atom(var)
        while self.peek() == "and":
            self.eat()
            left = ("and", left, self.pred_atom(var))
        return left

    def pred_atom(self, var):
        if self.peek() == "(":
            self.eat()
            p = self.pred(var)
            self.eat(")")
            return p
        a = self.eat()
        op = self.eat()
        b = self.value()
        if a != var or op not in ("<=", ">=", "==", "!=", "<", ">"):
            raise Unknown("pred")
        return ("cmp", op, b)


def parse_type(text):
    p = P(tokenize(text))
    t = p.type()
    if p.peek() is not None:
        raise Unknown("trailing " + str(p.peek()))
    return t


def strict_eq(a, b):
    if isinstance(a, (list, tuple)) and isinstance(b, (list, tuple)):
        return len(a) == len(b) and all(strict_eq(x, y) for x, y in zip(a, b))
    if isinstance(a, bool) != isinstance(b, bool):
        return False
    if isinstance(a, float) != isinstance(b, float):
        return False
    return a == b


def member(v, t):
    k = t[0]
    if k == "or":
        return member(v, t[1]) or member(v, t[2])
    if k == "and":
        return member(v, t[1]) and member(v, t[2])
    if k == "not":
        return not member(v, t[1])
    if k == "enum":
        return any(strict_eq(v, e) for e in t[1])
    if k == "interval":
        lo, hi, op = t[1], t[2], t[3]
        if not isinstance(v, (int, float)):
            return False
        return (lo < v if op.startswith("<") else lo <= v) and (v < hi if op.endswith("<") else v <= hi)
    if k == "refine":
        return member(v, t[1]) and pred_holds(v, t[2])
    if k == "name":
        n = t[1]
        if n == "Nat":
            return isinstance(v, int) and v >= 0
        if n == "Int":
            return isinstance(v, int)
        if n in ("Float", "Ratio"):
            return isinstance(v, (int, float))
        if n == "Str":
            return isinstance(v, str)
        if n == "Bool":
            return isinstance(v, bool)
        if n == "Obj":
            return True
        if n == "Never":
            return False
        if n == "NoneType":
            return v is None
        raise Unknown("name " + n)
    if k == "app":
        n, args = t[1], t[2]
        if n == "List":
            if not isinstance(v, list):
                return False
            if len(args) >= 2:
                if args[1][0] == "nat" and len(v) != args[1][1]:
                    return False
            if args and args[0][0] not in ("any", "expr", "nat", "types"):
                return all(member(e, args[0]) for e in v)
            return True
        if n == "Tuple" and args and args[0][0] == "types":
            return isinstance(v, tuple) and len(v) == len(args[0][1]) and all(member(e, tt) for e, tt in zip(v, args[0][1]))
        raise Unknown("app " + n)
    raise Unknown(k)


def pred_holds(v, p):
    if p[0] == "and":
        return pred_holds(v, p[1]) and pred_holds(v, p[2])
    if p[0] == "or":
        return pred_holds(v, p[1]) or pred_holds(v, p[2])
    op, b = p[1], p[2]
    return {"<=": v <= b, ">=": v >= b, "==": v == b, "!=": v != b, "<": v < b, ">": v > b}[op]


def shape(t):
    k = t[0]
    if k in ("or", "and"):
        return f"({shape(t[1])} {k} {shape(t[2])})"
    if k == "enum":
        return "{" + ("1" if len(t[1]) == 1 else "n") + ":" + (type(t[1][0]).__name__ if t[1] else "") + "}"
    if k == "app":
        return t[1] + "(" + ",".join(shape(a) if a[0] not in ("any", "expr", "nat", "types") else a[0] for a in t[2]) + ")"
    if k == "name":
        return t[1]
    return k


# ------------------------------------------------------------------ run
TYPE_LINE = re.compile(r"^::(v\d+)\(: (.*)\) =\s*$")


def run_one(ctx, case):
    d = os.path.join(ctx.scratch, "c" + common.sha(case))
    os.makedirs(d, exist_ok=True)
    src = case.get("src") or generate(case["seed"])
    er = os.path.join(d, "p.er")
    open(er, "w", encoding="utf-8").write(src)
    pt = ctx.run([ctx.erg, "--mode", "typecheck", er], cwd=d, timeout=180)
    res = {"case": case, "src": src, "pt": pt}
    if pt.timed_out or common.crash_signature(pt) or pt.rc != 0:
        return res
    types = {}
    for line in fragrun.strip_ansi(pt.sout).split("\n"):
        m = TYPE_LINE.match(line)
        if m and m.group(1) not in types:
            types[m.group(1)] = m.group(2)
    res["types"] = types
    res["pr"] = fragrun.erg_run(ctx, er)
    return res


def record(rep, r):
    pt, case = r["pt"], r["case"]
    if pt.timed_out:
        rep.inconc("typecheck exceeded its time limit")
        return
    if common.crash_signature(pt):
        rep.inconc("compiler crash (reported by C07)")
        return
    if "types" not in r:
        rep.declined += 1
        return
    pr = r["pr"]
    if pr.timed_out or common.crash_signature(pr):
        rep.inconc("run failed to finish")
        return
    out = fragrun.outcome(pr)
    if not out["started"]:
        rep.declined += 1
        return
    values = {}
    for line in out["out"].split("\n"):
        if line.startswith(MARK + " "):
            _, name, rp = line.split(" ", 2)
            try:
                values[name] = ast.literal_eval(rp)
            except (SyntaxError, ValueError):
                pass
    rep.count("programs_accepted")
    if out["exc"] == "IndexError":
        # which statement?  the first binding that has no value printed
        names = re.findall(r"^(v\d+)(?:: [^=]+)? = ", r["src"], re.M)
        culprit = next((n for n in names if n not in values), None)
        line = next((l for l in r["src"].split("\n") if culprit and re.match(rf"{culprit}(:| =)", l)), "")
        m = re.search(r"(v\d+)\[(\w+)\]$", line)
        if m:
            lt = r["types"].get(m.group(1), "?")
            idx = int(m.group(2)) if m.group(2).isdigit() else values.get(m.group(2))
            ml = re.search(r", (\d+)\)$", lt)
            n_rep = int(ml.group(1)) if ml else None
            if n_rep is None and lt.startswith("{["):
                try:
                    n_rep = len(parse_type(lt)[1][0])
                except (Unknown, IndexError, TypeError):
                    n_rep = None
            if n_rep is None or not isinstance(idx, int):
                rep.count("index_into_list_of_unreported_length_not_judged")
                return
            if idx < 0:
                kind = "negative-index-accepted"
            elif idx < n_rep:
                kind = "list-typed-longer-than-its-value"      # consequence of a wrong List length (see not-member:List-length)
            else:
                kind = "beyond-reported-length"
            rep.violation(case.get("sig") or "index-out-of-range:" + kind,
                          f"`{line}` was accepted ({m.group(1)}: {lt}, index {idx}) but raises IndexError at run time\nprogram:\n{r['src'][:1200]}", case)
            return
    for name, text in r["types"].items():
        if name not in values:
            continue
        try:
            t = parse_type(text)
            ok = member(values[name], t)
        except Unknown as e:
            rep.count("type_forms_not_read")
            rep.sub_note = str(e)
            continue
        except RecursionError:
            continue
        if ok:
            rep.ok((shape(t), type(values[name]).__name__), {"binding": name, "type": text, "value": repr(values[name])[:80]} if len(text) < 60 else None)
        else:
            line = next((l for l in r["src"].split("\n") if re.match(rf"{name}(:| =)", l)), "")
            cls = sig_shape(t, values[name])
            how = op_kind(line)
            if cls == "Never":
                how = "any"                       # one defect: `Never` inferred for an element or index
            elif cls == "List-length":
                how = "push" if "push" in how else "concat"
            rep.violation(case.get("sig") or f"not-member:{cls}:{how}",
                          f"`{line}`: reported type {text}, run-time value {values[name]!r}\nprogram:\n{r['src'][:1200]}", {**case, "binding": name})


def op_kind(line):
    """coarse description of how the binding was built (part of the signature, so that a new cause is not hidden by a listed one)"""
    rhs = line.split(" = ", 1)[-1]
    m = re.search(r"map\(\(x_ -> x_ (\S+) ", rhs)
    if m:
        return "map:" + m.group(1)
    parts = []
    for key, name in ((".push(", "push"), (".concat(", "concat"), (".reversed()", "reversed"), ("if(", "if"), ("len(", "len"), ("[", "index" if re.search(r"v\d+\[\w+\]$", rhs) else None)):
        if key in rhs and name:
            parts.append(name)
    ops = sorted(set(re.findall(r" (//|%|\*|\+|-) ", rhs)))
    if parts:
        return "+".join(parts)
    return "arith:" + "".join(ops) if ops else "plain"


def sig_shape(t, v):
    if "Never" in shape(t) or (t[0] == "app" and "Never" in str(t)):
        return "Never"
    if t[0] == "app" and t[1] == "List" and isinstance(v, list):
        if len(t[2]) >= 2 and t[2][1][0] == "nat" and t[2][1][1] != len(v):
            return "List-length"
        return "List-element"
    if isinstance(v, int) and not isinstance(v, bool) and v < 0 and "Nat" in shape(t) and "Int" not in shape(t):
        return "negative-value-typed-Nat"
    return shape(t)


KNOWN_CASES = []


def run(ctx, rep):
    n = ctx.n(400, 4000)
    # the program list is fixed (quick's is a prefix of thorough's): the unchanged tree mis-types a long tail of shapes, and every
    # listed finding must be reproducible from a committed input; VERIF_SEED only varies a small slice
    cases = [{"seed": f"C34:fixed:{i}"} for i in range(n)] + [{"seed": f"C34:{ctx.seed}:{i}"} for i in range(ctx.n(20, 100))]
    cases += [{"src": f'print!("{frag.SENTINEL}")\n' + s + "\n", "sig": sig} for sig, s in KNOWN_CASES]
    for r in common.pmap(lambda c: run_one(ctx, c), cases):
        record(rep, r)
    rep.min_evaluations = n // 2


def replay(ctx, rep, case):
    record(rep, run_one(ctx, case))
