"""C09 The parser is total and never exhausts the stack."""
import os
import re

from . import common, frag, c08

LEVEL = "exploration"
RULE = ("(a) nesting sweep through the user-facing `erg --mode parse` (8 MB parser thread): 10 nesting constructs x depths 1..1000; "
        "depth <= 200 must parse, deeper must not crash; (b) in-process SimpleParser::parse (`vh parse`) on corpus files and Frag "
        "programs truncated at token boundaries and mutated by token deletion/duplication/swap, and on random token sequences: "
        "never a panic/abort/hang, and the result is either a tree with no errors or >= 1 error. "
        "distinct = distinct (outcome, first error message) classes per input family")
MANIFEST = {
    "text": "Totality is monitored on tens of thousands of truncated, mutated and random token streams in-process (panics are "
            "caught and located), stack use is monitored through the real CLI on a deterministic nesting sweep.",
    "technique": "crash/hang monitor over generated, truncated and mutated inputs (in-process harness + CLI), deterministic nesting sweep",
    "note": "hang = no result within 240 s when re-run alone; CLI sweep uses the debug build the test-suite uses (stack depth differs in release)",
}

VOCAB = ["a", "b", "f", "x", "T", "1", "2", "0.5", '"s"', "(", ")", "[", "]", "{", "}", ",", ";", ":", "::", ".", "=", ":=", "->", "=>",
         "+", "-", "*", "/", "**", "==", "<", "and", "or", "not", "in", "if", "do", "do!", "for!", "|", "..", "@", "!", "?", "~", "...",
         "\n", "\n    ", "\n        ", "#", "'q'", "_", "as", "<:", "ref", "\\", "'''d'''", "Class", "Trait", "True", "None"]


def nest(construct, d):
    if construct == "paren":
        return "x = " + "(" * d + "1" + ")" * d + "\n"
    if construct == "list":
        return "x = " + "[" * d + "1" + "]" * d + "\n"
    if construct == "set":
        return "x = " + "{" * d + "1" + "}" * d + "\n"
    if construct == "call":
        return "x = " + "f(" * d + "1" + ")" * d + "\n"
    if construct == "index":
        return "x = " + "a[" * d + "0" + "]" * d + "\n"
    if construct == "lambda":
        return "x = " + "y -> " * d + "1\n"
    if construct == "unary":
        return "x = " + "- " * d + "y\n"
    if construct == "binop_right":
        return "x = " + "1 + (" * d + "1" + ")" * d + "\n"
    if construct == "tuple":
        return "x = " + "(1, " * d + "1" + ")" * d + "\n"
    if construct == "interp":
        s = "1"
        for _ in range(d):
            s = '"\\{' + s + '}"'
        return "x = " + s + "\n"
    raise ValueError(construct)


CONSTRUCTS = ["paren", "list", "set", "call", "index", "lambda", "unary", "binop_right", "tuple", "interp"]
DEPTHS_OK = [1, 2, 5, 10, 20, 35, 50, 75, 100, 150, 200]
DEPTHS_DEEP = [201, 300, 500, 1000]


def cli_parse(ctx, src, name):
    path = os.path.join(ctx.scratch, name + ".er")
    with open(path, "w", encoding="utf-8") as f:
        f.write(src)
    return ctx.run([ctx.erg, "--mode", "parse", path], cwd=ctx.scratch, timeout=300)


def sweep(ctx, rep):
    def one(job):
        construct, = job
        out = []
        for d in DEPTHS_OK + DEPTHS_DEEP:
            p = cli_parse(ctx, nest(construct, d), f"nest_{construct}_{d}")
            out.append((d, p))
            if p.timed_out or common.crash_signature(p):
                break   # deeper inputs only repeat the same failure
        return construct, out
    for construct, results in common.pmap(one, [(c,) for c in CONSTRUCTS]):
        for d, p in results:
            case = {"nest": construct, "depth": d}
            crash = common.crash_signature(p)
            if p.timed_out:
                rep.violation(f"nest:{construct}:hang", f"`erg --mode parse` did not finish in 300 s on {construct} nesting depth {d}", case)
            elif crash:
                rep.violation(f"nest:{construct}:{'stack-overflow' if 'stack' in crash or 'signal' in crash else crash}",
                              f"`erg --mode parse` crashed ({crash}, rc={p.rc}) on {construct} nesting of depth {d}; "
                              f"depth <= 200 must parse and deeper nesting must be reported as an error", case)
            elif p.rc not in (0, 1):
                rep.violation(f"nest:{construct}:rc{p.rc}", f"exit status {p.rc} at depth {d}", case)
            elif d <= 200 and p.rc != 0:
                msg = common.crash_signature(p) or first_error(p.serr + p.sout)
                rep.violation(f"nest:{construct}:rejected-shallow", f"{construct} nesting of depth {d} (<= 200) rejected: {msg}", case)
            else:
                rep.ok(("nest", construct, d), {"nest": construct, "depth": d, "rc": p.rc} if d in (200, 1000) else None)


def first_error(text):
    m = re.search(r"(\w*Error): (.*)", re.sub(r"\x1b\[[0-9;]*m", "", text))
    return (m.group(1) + ": " + m.group(2)[:80]) if m else "?"


# ---------------------------------------------------------------- in-process fuzz
TOKEN_RE = re.compile(r'"(?:\\.|[^"\\\n])*"|\'[^\'\n]*\'|[A-Za-z_][A-Za-z_0-9]*!?|\d+\.\d+|\d+|\*\*|==|!=|<=|>=|->|=>|\.\.<|<\.\.|\.\.|::|:=|<:|:>|\n[ ]*|[ ]+|.', re.S)


def tokens_of(text):
    return TOKEN_RE.findall(text)


def mutate(toks, rng):
    toks = list(toks)
    for _ in range(rng.choice([1, 1, 2, 3])):
        if not toks:
            break
        i = rng.randrange(len(toks))
        k = rng.random()
        if k < 0.35:
            del toks[i]
        elif k < 0.6:
            toks.insert(i, toks[i])
        elif k < 0.8 and len(toks) > 1:
            j = rng.randrange(len(toks))
            toks[i], toks[j] = toks[j], toks[i]
        else:
            toks.insert(i, rng.choice(VOCAB))
    return "".join(toks)


def gen_inputs(ctx, rng):
    cases = []
    texts = []
    for f in c08.corpus_files(ctx):
        try:
            texts.append(open(f, encoding="utf-8").read())
        except (OSError, UnicodeDecodeError):
            pass
    nprog = ctx.n(60, 1500)
    for i in range(nprog):
        texts.append(frag.to_erg(frag.generate(f"C09:{ctx.seed}:{i}"), top=True) + "\n")
    per_trunc = ctx.n(25, 200)
    per_mut = ctx.n(25, 200)
    for t in texts:
        toks = tokens_of(t)
        if not toks:
            continue
        cuts = list(range(1, len(toks)))
        rng.shuffle(cuts)
        for c in cuts[:per_trunc]:
            cases.append({"src": "".join(toks[:c]), "kind": "trunc"})
        for _ in range(per_mut):
            cases.append({"src": mutate(toks, rng), "kind": "mutated"})
    for _ in range(ctx.n(6000, 200000)):
        n = rng.randint(1, 40)
        cases.append({"src": " ".join(rng.choice(VOCAB) for _ in range(n)) + "\n", "kind": "random-tokens"})
    return cases


def judge_batch(ctx, rep, cases):
    reqs = [{"src": c["src"], "ast": False} for c in cases]
    resp, proc = ctx.vh_lines("parse", reqs, timeout=900)
    if proc.timed_out or len(resp) != len(cases):
        done = len(resp)
        for k in range(done):
            judge_one(rep, cases[k], resp[k])
        if done < len(cases):
            culprit = cases[done]
            r1, p1 = ctx.vh_lines("parse", [{"src": culprit["src"], "ast": False}], timeout=240)
            if p1.timed_out:
                rep.violation("hang", f"parser did not finish within 240 s on {culprit['src'][:200]!r}", culprit)
            elif len(r1) != 1:
                rep.violation("abort:" + (common.crash_signature(p1) or f"rc{p1.rc}"),
                              f"parser process died on {culprit['src'][:200]!r}: {p1.serr[-200:]}", culprit)
            else:
                judge_one(rep, culprit, r1[0])
            rest = cases[done + 1:]
            if rest:
                judge_batch(ctx, rep, rest)
        return
    for c, r in zip(cases, resp):
        judge_one(rep, c, r)


def judge_one(rep, c, r):
    if "panic" in r:
        loc = common._relsrc(r["panic"].split(": ")[0])
        rep.violation("panic:" + loc, f"parser panicked at {r['panic'][:160]} on input {c['src'][:300]!r}", c)
        return
    if r.get("ok"):
        rep.ok((c["kind"], "ok"), None)
        rep.count("parsed_ok")
    elif r.get("errors"):
        rep.ok((c["kind"], "err", r["errors"][0]["msg"][:40]), {"src": c["src"][:120], "first_error": r["errors"][0]["msg"][:80]}
               if len(c["src"]) < 120 else None)
        rep.count("rejected_with_errors")
    else:
        rep.violation("no-tree-no-error", f"parse failed without any error on {c['src'][:300]!r}", c)


# exact inputs of listed panics (deterministic part of the workload)
KNOWN_INPUTS = ["() := 1\n", "|T|)\n", "a + C::\n    x = 1\n", "f 0 = 0\nf 1 = 1\nf() = 2\n", "f x: Int, y: Int := 1, z: Nat\n",
                "assert 1.abs(|) == 1\n", "__ = kw_var:=asa:=1, b(\"2\")\n"]


def run(ctx, rep):
    rng = ctx.rng()
    sweep(ctx, rep)
    cases = [{"src": s, "kind": "known-input"} for s in KNOWN_INPUTS] + gen_inputs(ctx, rng)
    rep.extra["fuzz_inputs"] = len(cases)
    common.run_parallel(rep, cases, lambda sr, part: judge_batch(ctx, sr, part), nparts=common.NCPU * 4)
    rep.min_evaluations = 3000


def replay(ctx, rep, case):
    if "nest" in case:
        p = cli_parse(ctx, nest(case["nest"], case["depth"]), "replay")
        crash = common.crash_signature(p)
        if crash or p.timed_out:
            rep.violation(f"nest:{case['nest']}:stack-overflow", f"crash {crash} rc={p.rc}", case)
        else:
            rep.ok(("nest", case["nest"], case["depth"]))
    else:
        judge_batch(ctx, rep, [case])
