"""C30 Language-server rename preserves program meaning."""
import os
import random
import re

from . import common, fragrun

LEVEL = "exploration"
RULE = ("generated programs whose binding structure is known to the generator (top-level variables, function parameters that "
        "shadow them, inner local bindings, lambda parameters, default arguments that refer to outer variables, a call that passes a parameter by keyword, closures, and "
        "string literals - with escapes, Unicode and the variable's own name - before a reference on the same line). For every "
        "binding and every one of its occurrences a rename to a fresh identifier is requested from the real server (`vh els-rename`). "
        "Oracle: the returned WorkspaceEdit changes exactly the definition and the references of that binding (positions in UTF-16 "
        "units); the edited program is accepted by `erg check` exactly when the original is and `erg run` prints the same. "
        "distinct = distinct (binding kind, occurrence kind, same-line prefix kind) triples")
MANIFEST = {
    "text": "Every rename position of every binding of the generated programs is requested; the edit set is compared with the known occurrence set and the edited program is re-checked and re-run.",
    "technique": "runtime monitor of rename responses against generator-known binding structure + differential execution of original vs renamed program",
    "note": "≈1 s per request (the server waits for file timestamps); a request the server answers with null for a user binding is a violation",
}

PREFIXES = [("none", ""), ("plain-str", 's_ = "abc"; '), ("name-in-str", 's_ = "{n} {n}"; '), ("escape", 's_ = "a\\nb\\"c"; '),
            ("unicode", 's_ = "é日本"; '), ("astral", 's_ = "a😀b"; '), ("comment", "#[ {n} ]# ")]


def u16(s):
    return len(s.encode("utf-16-le")) // 2


class Prog:
    def __init__(self):
        self.lines = []
        self.occ = {}      # binding id -> [(line, col_u16, kind)]
        self.names = {}    # binding id -> name
        self.kinds = {}    # binding id -> kind
        self.prefix_kind = {}

    def add(self, parts, prefix=("none", "")):
        """parts: list of str | (binding id, occurrence kind)"""
        text = prefix[1]
        ln = len(self.lines)
        for p in parts:
            if isinstance(p, tuple):
                bid, kind = p
                self.occ.setdefault(bid, []).append((ln, u16(text), kind, prefix[0]))
                text += self.names[bid]
            else:
                text += p
        self.lines.append(text)

    def text(self):
        return "\n".join(self.lines) + "\n"


def generate(seed):
    r = random.Random(seed)
    P = Prog()
    pool = ["x", "y", "val", "w", "n_"]
    r.shuffle(pool)
    nb = [0]

    def bind(name, kind):
        nb[0] += 1
        P.names[nb[0]] = name
        P.kinds[nb[0]] = kind
        return nb[0]

    def pre(name):
        k, t = r.choice(PREFIXES)
        return (k, t.replace("{n}", name))
    P.add(['print! "<<<FRAG-BEGIN>>>"'])
    a = bind(pool[0], "top-variable")
    b = bind(pool[1], "top-variable")
    P.add([(a, "def"), f" = {r.randrange(1, 9)}"])
    P.add([(b, "def"), " = ", (a, "ref"), f" + {r.randrange(1, 9)}"], pre(pool[0]))
    # function whose parameter shadows a
    pa = bind(pool[0], "param-shadowing")
    P.add(["f1(", (pa, "def"), ": Int): Int = ", (pa, "ref"), " * 2 + ", (b, "ref")])
    # function with inner local binding shadowing b and a closure over a
    lb = bind(pool[1], "inner-local-shadowing")
    pq = bind("q", "param")
    P.add(["f2(", (pq, "def"), ": Int): Int ="])
    P.add(["    ", (lb, "def"), " = ", (pq, "ref"), " + ", (a, "ref")], ("none", "") if r.random() < 0.5 else ("indented-str", ""))
    P.lines[-1] = P.lines[-1]
    P.add(["    ", (lb, "ref"), " * ", (lb, "ref")])
    # default argument referring to the outer variable
    pk = bind("k", "param-with-default")
    pz = bind(pool[2], "param")
    P.add(["f3(", (pz, "def"), ": Int, ", (pk, "def"), " := ", (b, "ref"), "): Int = ", (pz, "ref"), " + ", (pk, "ref")])
    # lambda parameter shadowing a, closure over b
    lp = bind(pool[0], "lambda-param-shadowing")
    g = bind("g_", "top-variable")
    P.add([(g, "def"), " = (", (lp, "def"), ": Int) -> ", (lp, "ref"), " + ", (b, "ref")], pre(pool[1]))
    c = bind(pool[3], "top-variable")
    P.add([(c, "def"), " = f1(", (a, "ref"), ") + f2(", (b, "ref"), ") + f3(", (a, "ref"), ") + ", (g, "ref"), "(", (a, "ref"), ")"], pre(pool[0]))
    kw = bind("kw_", "top-variable")
    P.add([(kw, "def"), " = f3(1, ", (pk, "kwarg-name"), " := 2)"])
    P.add(["print! ", (a, "ref"), ", ", (b, "ref"), ", ", (c, "ref"), ", ", (kw, "ref")], pre(pool[3]))
    P.add(['print! "', P.names[a], ' ', P.names[b], '"'])
    return P


def apply_edit(text, edits):
    """edits: list of (line, c0, line, c1, new) with UTF-16 columns; returns new text"""
    lines = text.split("\n")
    for ln, c0, ln1, c1, new in sorted(edits, reverse=True):
        if ln != ln1:
            return None
        raw = lines[ln].encode("utf-16-le")
        lines[ln] = (raw[:c0 * 2] + new.encode("utf-16-le") + raw[c1 * 2:]).decode("utf-16-le", errors="replace")
    return "\n".join(lines)


def edits_of(resp, uri_suffix):
    if resp is None:
        return None
    out = []
    for uri, es in (resp.get("changes") or {}).items():
        for e in es:
            rg = e["range"]
            out.append((rg["start"]["line"], rg["start"]["character"], rg["end"]["line"], rg["end"]["character"], e["newText"]))
    for dc in resp.get("documentChanges") or []:
        for e in dc.get("edits", []):
            rg = e["range"]
            out.append((rg["start"]["line"], rg["start"]["character"], rg["end"]["line"], rg["end"]["character"], e["newText"]))
    return sorted(set(out))


def run_prog(ctx, d, name, text):
    path = os.path.join(d, name)
    open(path, "w", encoding="utf-8").write(text)
    pc = ctx.run([ctx.erg, "check", path], cwd=d, timeout=180)
    pr = ctx.run([ctx.erg, "run", path], cwd=d, timeout=180)
    out = fragrun.outcome(pr)
    return pc.rc, pr.rc, out.get("out"), out.get("exc")


def one(ctx, case):
    P = generate(case["seed"])
    text = P.text()
    d = os.path.join(ctx.scratch, "r" + common.sha(case))
    os.makedirs(d, exist_ok=True)
    reqs, meta = [], []
    for bid, occs in P.occ.items():
        for (ln, col, kind, pk) in occs:
            reqs.append([ln, col + (1 if len(P.names[bid]) > 1 and case.get("inside") else 0), "renamed_zz"])
            meta.append((bid, ln, col, kind, pk))
    if case.get("only") is not None:
        reqs, meta = [reqs[case["only"]]], [meta[case["only"]]]
    # one freshly started server per request: a rename changes the server's own state (it assumes the edit gets applied)
    def ask(k):
        dd = os.path.join(d, f"q{k}")
        os.makedirs(dd, exist_ok=True)
        resp, proc = ctx.vh_lines("els-rename", [{"path": os.path.join(dd, "doc.er"), "text": text, "requests": [reqs[k]]}], timeout=600)
        if not resp:
            return {"error": "no answer"}
        if "edits" not in resp[0]:
            return resp[0]
        return resp[0]["edits"][0] if resp[0]["edits"] else {"error": "empty"}
    edits = common.pmap(ask, list(range(len(reqs))))
    orig = run_prog(ctx, d, "orig.er", text)
    return {"case": case, "P": P, "text": text, "resp": {"edits": edits}, "meta": meta, "orig": orig, "dir": d}


def judge(ctx, rep, r):
    P, case, text = r["P"], r["case"], r["text"]
    if r["resp"] is None or "edits" not in (r["resp"] or {}):
        if r["resp"] and "panic" in r["resp"]:
            rep.violation("panic:" + common._relsrc(r["resp"]["panic"].split(": ")[0]), f"server panicked: {r['resp']['panic'][:200]}\n{text}", case)
        else:
            rep.inconc(f"no answer from the server ({str(r['resp'])[:100]})")
        return
    if r["orig"][0] != 0:
        rep.declined += 1
        return
    for k, (ed, (bid, ln, col, kind, pk)) in enumerate(zip(r["resp"]["edits"], r["meta"])):
        sub = dict(case, only=k) if case.get("only") is None else case
        name = P.names[bid]
        where = f"{P.kinds[bid]} `{name}` at {ln}:{col} ({kind}, prefix {pk})"
        if isinstance(ed, dict) and "panic" in ed:
            rep.violation("panic:" + common._relsrc(ed["panic"].split(": ")[0]), f"rename of {where} panicked: {ed['panic'][:200]}\n{text}", sub)
            return
        if isinstance(ed, dict) and "error" in ed:
            rep.inconc("request error: " + ed["error"][:80])
            continue
        got = edits_of(ed, "doc.er")
        want = sorted((l, c, l, c + u16(name), "renamed_zz") for (l, c, _, _) in P.occ[bid])
        if got is None:
            rep.violation(f"no-edit:{P.kinds[bid]}:{kind}", f"rename of {where} returned no edit\n{text}", sub)
            continue
        if got != want:
            missing = [w for w in want if w not in got]
            extra = [g for g in got if g not in want]
            shifted = bool(missing) and len(missing) == len(extra) and all(abs(m[1] - e[1]) <= 6 and m[0] == e[0] for m, e in zip(missing, extra))
            what = "shifted-range" if shifted else ("missing-reference" if missing and not extra else ("foreign-occurrence-renamed" if extra and not missing else "wrong-edit-set"))
            bad_line = (missing or extra)[0][0]
            pk_bad = next((o[3] for occs in P.occ.values() for o in occs if o[0] == bad_line), "none")
            rep.violation(f"{what}:{P.kinds[bid]}:after-{pk_bad}", f"rename of {where}: expected edits {want}, got {got}; missing {missing}, unexpected {extra}\n{text}", sub)
            continue
        new_text = apply_edit(text, got)
        res = run_prog(ctx, r["dir"], f"renamed{k}.er", new_text)
        if res != r["orig"]:
            rep.violation(f"behaviour-changed:{P.kinds[bid]}", f"rename of {where}: check/run (rc, rc, stdout) {r['orig']} before, {res} after\n{new_text}", sub)
            continue
        rep.ok((P.kinds[bid], kind, pk), {"binding": P.kinds[bid], "name": name, "position": [ln, col], "edits": len(got)})
        rep.count("rename_requests_verified")


def run(ctx, rep):
    n = ctx.n(6, 40)
    cases = [{"seed": f"C30:{ctx.seed}:{i}"} for i in range(n)]
    for r in common.pmap(lambda c: one(ctx, c), cases):
        judge(ctx, rep, r)
    rep.min_evaluations = n * 10


def replay(ctx, rep, case):
    judge(ctx, rep, one(ctx, case))
