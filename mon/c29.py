"""C29 Incremental language-server analysis converges to a fresh analysis."""
import json
import os
import random

from . import common

LEVEL = "exploration"
RULE = ("random edit histories on a small open document (5..9 top-level definitions; bindings, typed functions, prints, some of "
        "them ill-typed or referring to undefined names): 3..8 didChange notifications, each with 1..3 line-range changes that add, "
        "delete or modify a top-level definition, the last followed by didSave; driven against the real server (`vh els-diag`, "
        "one server per history, in-process client). Observed at quiescence (silence window + a second, longer stability window): "
        "the last publishDiagnostics for the document. Reference: a freshly started server that opens the final text. Oracle: the "
        "sets of (range, severity, code, message) are equal; a difference counts only when it is still there on a re-run with "
        "doubled windows. distinct = distinct (number of notifications, diagnostic-code multiset) pairs")
MANIFEST = {
    "text": "Each edit history is replayed against a live server and compared with a fresh server on the final text.",
    "technique": "differential history checker: incremental server state after an edit history vs freshly started server, at logical quiescence",
    "note": "the server's document copy must equal the client's final text (C28) for the comparison to be meaningful; otherwise the history is not judged here",
}

DEFS = [
    lambda r, n: f"{n} = {r.randrange(100)}",
    lambda r, n: f"{n} = \"s{r.randrange(9)}\"",
    lambda r, n: f"{n}(x: Int): Int = x + {r.randrange(9)}",
    lambda r, n: f"{n}(x: Int, y: Int): Int = x * y",
    lambda r, n: f"{n} = [1, 2, {r.randrange(9)}]",
    lambda r, n: f"{n}: Int = \"oops\"",                 # type error
    lambda r, n: f"{n} = undefined_{r.randrange(5)}",      # name error
    lambda r, n: f"{n} = 1 + \"a\"",                     # type error
    lambda r, n: f"{n}(x: Str): Str = x + \"!\"",
]


def new_def(r, used):
    n = f"d{len(used)}_{r.randrange(1000)}"
    used.append(n)
    line = r.choice(DEFS)(r, n)
    return line


def use_line(r, used):
    if not used or r.random() < 0.3:
        return f"print! {r.randrange(10)}"
    return f"print! {r.choice(used)}"


def make_history(seed):
    r = random.Random(seed)
    used = []
    lines = [new_def(r, used) for _ in range(r.randrange(4, 8))] + [use_line(r, used)]
    text0 = "\n".join(lines) + "\n"
    cur = list(lines)
    notes = []
    for _ in range(r.randrange(3, 9)):
        changes = []
        for _ in range(r.choice([1, 1, 2, 3])):
            k = r.choice(["add", "delete", "modify", "modify"])
            if k == "add" or len(cur) < 3:
                i = r.randrange(len(cur) + 1)
                new = new_def(r, used) if r.random() < 0.8 else use_line(r, used)
                changes.append({"range": [i, 0, i, 0], "text": new + "\n"})
                cur.insert(i, new)
            elif k == "delete":
                i = r.randrange(len(cur))
                changes.append({"range": [i, 0, i + 1, 0], "text": ""})
                del cur[i]
            else:
                i = r.randrange(len(cur))
                new = new_def(r, used) if r.random() < 0.7 else use_line(r, used)
                if r.random() < 0.4 and " = " in cur[i]:
                    # modify only the right-hand side in place
                    c0 = cur[i].index(" = ") + 3
                    rhs = r.choice(["7", "\"t\"", "undefined_9", "[1]", "1 + 2"])
                    changes.append({"range": [i, c0, i, len(cur[i])], "text": rhs})
                    cur[i] = cur[i][:c0] + rhs
                else:
                    changes.append({"range": [i, 0, i + 1, 0], "text": new + "\n"})
                    cur[i] = new
        notes.append({"changes": changes})
    notes[-1]["save"] = True
    return text0, notes, "\n".join(cur) + "\n"


def key_of(diags):
    out = []
    for d in diags or []:
        rg = d.get("range", {})
        out.append((rg.get("start", {}).get("line"), rg.get("start", {}).get("character"), rg.get("end", {}).get("line"), rg.get("end", {}).get("character"),
                    d.get("severity"), d.get("code"), d.get("message")))
    return sorted(out, key=str)


def ask(ctx, path, text0, notes, settle):
    os.makedirs(os.path.dirname(path), exist_ok=True)
    open(path, "w").write(text0)
    resp, proc = ctx.vh_lines("els-diag", [{"path": path, "open_text": text0, "notifications": notes, "settle_ms": settle}], timeout=900)
    if proc.timed_out or not resp:
        return None
    return resp[0]


def one(ctx, case, settle=1200):
    text0, notes, final = make_history(case["seed"])
    d = os.path.join(ctx.scratch, "h" + common.sha([case, settle]))
    inc = ask(ctx, os.path.join(d, "inc", "doc.er"), text0, notes, settle)
    fresh = ask(ctx, os.path.join(d, "fresh", "doc.er"), final, [], settle)
    return {"case": case, "inc": inc, "fresh": fresh, "final": final, "n": len(notes)}


def differs(r):
    a, b = r["inc"], r["fresh"]
    if not a or not b or "diagnostics" not in a or "diagnostics" not in b:
        return None
    ua = [v for k, v in a["diagnostics"]["last"].items() if k.endswith("/doc.er")]
    ub = [v for k, v in b["diagnostics"]["last"].items() if k.endswith("/doc.er")]
    ka, kb = key_of(ua[0] if ua else []), key_of(ub[0] if ub else [])
    return (ka, kb) if ka != kb else False


def judge(ctx, rep, r):
    a, b, case = r["inc"], r["fresh"], r["case"]
    for name, x in (("incremental", a), ("fresh", b)):
        if x is None:
            rep.inconc(f"{name} server did not answer in time")
            return
        if "panic" in x:
            rep.violation("panic:" + common._relsrc(x["panic"].split(": ")[0]), f"{name} server panicked: {x['panic'][:200]}\nfinal text:\n{r['final']}", case)
            return
        if "error" in x:
            rep.inconc(f"{name}: {x['error'][:100]}")
            return
    if a.get("final_text") != r["final"]:
        rep.count("server_text_differs_from_client_text_not_judged")
        rep.declined += 1
        return
    if not a.get("stable") or not b.get("stable"):
        rep.inconc("diagnostics still changing after the stability window")
        return
    d = differs(r)
    if d:
        # stability re-check with doubled windows
        r2 = one(ctx, case, settle=2500)
        d2 = differs(r2)
        if d2 is None or not r2["inc"].get("stable") or not r2["fresh"].get("stable"):
            rep.inconc("difference could not be re-checked")
            return
        if not d2:
            rep.inconc("difference disappeared with longer windows (timing)")
            rep.count("timing_dependent_differences")
            return
        ka, kb = d2
        if sorted(set(map(str, ka))) == sorted(set(map(str, kb))):
            # same diagnostics, but some of them published more than once (the didSave check and the background check overlap)
            rep.violation("duplicated-diagnostics", f"after the edit history the server's last publication lists {len(ka)} diagnostics, a fresh server "
                          f"{len(kb)}: the same set, with duplicates\nfinal text:\n{r['final']}", case)
            return
        only_inc = [x for x in ka if x not in kb]
        only_fresh = [x for x in kb if x not in ka]
        kind = "stale-diagnostic" if only_inc and not only_fresh else ("missing-diagnostic" if only_fresh and not only_inc else "different-diagnostics")
        codes = sorted({str(x[5]) for x in only_inc + only_fresh})
        rep.violation(f"{kind}:{','.join(codes)[:40]}", f"after the edit history the server reports {len(ka)} diagnostics, a fresh server {len(kb)}; only incremental: "
                      f"{only_inc[:3]}; only fresh: {only_fresh[:3]}\nfinal text:\n{r['final']}", case)
        return
    ka = key_of([v for k, v in a["diagnostics"]["last"].items() if k.endswith("/doc.er")][0] if a["diagnostics"]["last"] else [])
    rep.ok((r["n"], tuple(sorted(str(x[5]) for x in ka))), {"notifications": r["n"], "diagnostics": len(ka), "publishes": a["diagnostics"]["publish_count"]})
    rep.count("histories_compared")
    rep.count("publish_events_seen", a["diagnostics"]["publish_count"])


def run(ctx, rep):
    n = ctx.n(64, 320)
    cases = [{"seed": f"C29:{ctx.seed}:{i}"} for i in range(n)]
    for r in common.pmap(lambda c: one(ctx, c), cases):
        judge(ctx, rep, r)
    rep.min_evaluations = n // 2


def replay(ctx, rep, case):
    judge(ctx, rep, one(ctx, case))
