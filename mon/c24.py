"""C24 Diagnostics point inside the source at the offending construct."""
import os
import random
import re

from . import common, errs, fragrun

LEVEL = "exploration"
RULE = ("generated programs with exactly one injected error (undefined name in 6 syntactic positions, or a type error in 5 forms) "
        "placed after arbitrary preceding text on the same line (`;`-joined bindings of strings with escapes, quotes, braces, "
        "Unicode incl. astral and combining characters, \\x09, inline #[ ]# comments, comments / strings / interpolated strings that end on this line but began on the previous one) and after 0..3 preceding lines (multi-line "
        "strings/comments included). Observed: every diagnostic (errors and warnings, main and sub locations) of the real front "
        "end (`vh errors`), and the rendering by `erg check` for a sample. Oracle: line within 1..=nlines, begin <= end, columns "
        "within the line (in characters); for the undefined name, source[line][cb:ce] is exactly that name; for the type error "
        "the range overlaps the injected expression; at least one diagnostic is reported; rendering exits normally and shows the "
        "right source line. distinct = distinct (prefix kind, construct kind, diagnostic kind) triples")
MANIFEST = {
    "text": "Each diagnostic of thousands of one-error programs is compared with the known position of the injected construct.",
    "technique": "runtime monitor on diagnostic locations of generated one-error programs (known injected span as oracle) + crash monitor on rendering",
    "note": "columns are compared in characters, the unit the lexer counts in",
}

STRS = ['"a"', '"a\\"b"', '"\\\\"', '"it\'s"', '"{"', '"}"', '"é"', '"日本語"', '"😀"', '"a😀b"', '"e\u0301"', '"\\x09"', '"\\n"', '"# no"', '"\\\\\\""',
        '"x\\ty"', '"\\{1}"', '"ｗｉｄｅ"', '"\\0"', '"\\\'"']
NAME = "undefined_nm"


def prefix(r):
    kind = r.choice(["none", "str", "str2", "comment", "mix", "spaces", "multiline-comment", "multiline-interp", "multiline-str"])
    if kind == "multiline-comment":
        return kind, "#[ " + r.choice(["a", "é", "x = 1"]) + "\n " + r.choice(["b", "日本", ""]) + " ]# "
    if kind == "multiline-interp":
        return kind, 'k_ = 1; s_ = """a\\{k_}b\nc' + r.choice(["", "é", " d"]) + '"""; '
    if kind == "multiline-str":
        return kind, 's_ = """a\nb' + r.choice(["", "😀"]) + '"""; '

    if kind == "none":
        return kind, ""
    if kind == "str":
        return kind, f"s_ = {r.choice(STRS)}; "
    if kind == "str2":
        return kind, f"s_ = {r.choice(STRS)} + {r.choice(STRS)}; t_ = {r.choice(STRS)}; "
    if kind == "comment":
        return kind, "#[ " + r.choice(["c", "é", "😀", "x = 1", '"']) + " ]# "
    if kind == "mix":
        return kind, f"s_ = {r.choice(STRS)}; #[ {r.choice(['c', '日本'])} ]# t_ = [{r.choice(STRS)}, {r.choice(STRS)}]; "
    return kind, "k_ = 1;" + " " * r.randrange(1, 6)


def construct(r):
    """-> (kind, text, (start, end) of the offending part within text, expected name or None)"""
    k = r.choice(["name-rhs", "name-call-arg", "name-binop", "name-callee", "name-index", "name-in-list",
                  "type-annot", "type-binop", "type-arg", "type-method", "type-assign-str"])
    n = NAME + str(r.randrange(10))
    if k == "name-rhs":
        t = f"y_ = {n}"
    elif k == "name-call-arg":
        t = f"print! {n}"
    elif k == "name-binop":
        t = f"y_ = 1 + {n}"
    elif k == "name-callee":
        t = f"y_ = {n}(1)"
    elif k == "name-index":
        t = f"y_ = [1, 2][{n}]"
    elif k == "name-in-list":
        t = f"y_ = [1, {n}, 3]"
    elif k == "type-annot":
        bad = r.choice(['"s"', "1.5", "[1]"])
        t = f"z_: Int = {bad}"
        return k, t, (0, len(t)), None
    elif k == "type-binop":
        bad = '"a" + 1'
        t = f"z_ = {bad}"
        return k, t, (t.index(bad), len(t)), None
    elif k == "type-arg":
        bad = "len(5)"
        t = f"z_ = {bad}"
        return k, t, (t.index(bad), len(t)), None
    elif k == "type-method":
        bad = '"a".no_such_method_()'
        t = f"z_ = {bad}"
        return k, t, (t.index(bad), len(t)), None
    else:
        bad = "abs(\"x\")"
        t = f"z_ = {bad}"
        return k, t, (t.index(bad), len(t)), None
    i = t.index(n)
    return k, t, (i, i + len(n)), n


PRE_LINES = ['a_ = 1', 'b_ = "é😀"', '# comment é', '#[ multi\nline 😀\ncomment ]#', 'c_ = """multi\nline "q" é\n"""', '', 'd_ = [1,\n  2]',
             'e_ = "tab\\x09"; f_ = 2']


def make(seed):
    r = random.Random(seed)
    pre = [r.choice(PRE_LINES) for _ in range(r.randrange(0, 4))]
    pk, ptxt = prefix(r)
    ck, ctxt, (a, b), name = construct(r)
    post = [r.choice(["g_ = 3", "", "# end", 'h_ = "z"'])] if r.random() < 0.5 else []
    head = "\n".join(pre)
    line_no = head.count("\n") + 2 if pre else 1
    src = (head + "\n" if pre else "") + ptxt + ctxt + "\n" + "\n".join(post) + ("\n" if post else "")
    line_no += ptxt.count("\n")
    off = len(ptxt.rsplit("\n", 1)[-1])
    return {"src": src, "line": line_no, "cb": off + a, "ce": off + b, "name": name, "prefix": pk, "construct": ck}


def locs_of(e):
    out = [e["loc"]]
    for s in e.get("sub", []):
        m = re.match(r"Range \{ ln_begin: (\d+), col_begin: (\d+), ln_end: (\d+), col_end: (\d+) \}", s)
        if m:
            lb, cb, le, ce = map(int, m.groups())
            out.append({"k": "range", "lb": lb, "cb": cb, "le": le, "ce": ce})
        m = re.match(r"Line\((\d+)\)", s)
        if m:
            out.append({"k": "line", "lb": int(m.group(1))})
        m = re.match(r"LineRange\((\d+), (\d+)\)", s)
        if m:
            out.append({"k": "lines", "lb": int(m.group(1)), "le": int(m.group(2))})
    return out


def judge(rep, case, r):
    src = case["src"]
    lines = src.split("\n")
    nlines = len(lines) - (1 if src.endswith("\n") else 0)
    tag = f"{case['prefix']}/{case['construct']}"
    if "panic" in r or r.get("lost"):
        rep.inconc("front end crashed (C07)")
        return
    if not r.get("errors"):
        rep.violation("no-diagnostic:" + case["construct"], f"no error reported for the injected {case['construct']} in:\n{src}", case)
        return
    if any("Syntax" in e["kind"] for e in r["errors"]):
        rep.violation("syntax-error:" + case["prefix"], f"well-formed text reported as syntax error: {r['errors'][0]['msg'][:100]}\n{src}", case)
        return
    hit = False
    for e in r["errors"] + r.get("warns", []):
        for loc in locs_of(e):
            k = loc["k"]
            if k == "unknown":
                if e in r["errors"]:
                    rep.violation(f"unknown-location:{e['kind']}:{case['construct']}", f"{e['kind']} `{fragrun.strip_ansi(e['msg'])[:80]}` carries no location\n{src}", case)
                    return
                continue
            lb, le = loc["lb"], loc.get("le", loc["lb"])
            if not (1 <= lb <= le <= nlines):
                rep.violation(f"line-outside:{e['kind']}", f"{e['kind']} at lines {lb}..{le} but the input has {nlines} lines\n{src}", case)
                return
            if k == "range":
                cb, ce = loc["cb"], loc["ce"]
                if (lb == le and cb > ce) or cb > len(lines[lb - 1]) or ce > len(lines[le - 1]):
                    rep.violation(f"column-outside:{e['kind']}", f"{e['kind']} at {lb}:{cb}..{le}:{ce}; line lengths {len(lines[lb - 1])}/{len(lines[le - 1])}\n{src}", case)
                    return
        loc = e["loc"]
        if e in r["errors"] and loc["k"] != "unknown":
            msg = fragrun.strip_ansi(e["msg"])
            if case["name"] and case["name"] in msg and e["kind"] in ("NameError", "AttributeError"):
                got = lines[loc["lb"] - 1][loc.get("cb", 0):loc.get("ce", 0)] if loc["k"] == "range" and loc["lb"] == loc["le"] else None
                if got != case["name"]:
                    rep.violation(f"wrong-span:undefined-name:{case['construct']}", f"undefined name {case['name']} is at {case['line']}:{case['cb']}..{case['ce']}, "
                                  f"diagnostic highlights {loc} = {got!r}\n{src}", case)
                    return
                hit = True
            elif not case["name"]:
                lb, le = loc["lb"], loc.get("le", loc["lb"])
                if lb <= case["line"] <= le:
                    if loc["k"] == "range" and lb == le and not (loc["cb"] < case["ce"] and loc["ce"] > case["cb"]) :
                        rep.violation(f"wrong-span:type-error:{case['construct']}", f"injected expression at {case['line']}:{case['cb']}..{case['ce']}, "
                                      f"diagnostic {e['kind']} at {loc}\n{src}", case)
                        return
                    hit = True
    if not hit:
        first = r["errors"][0]
        rep.violation(f"not-at-construct:{case['construct']}", f"no diagnostic covers the injected construct at line {case['line']}; first: {first['kind']} {first['loc']} "
                      f"{fragrun.strip_ansi(first['msg'])[:80]}\n{src}", case)
        return
    rep.ok((case["prefix"], case["construct"], r["errors"][0]["kind"]),
           {"line": lines[case["line"] - 1][:100], "construct": case["construct"], "diagnostic": r["errors"][0]["kind"], "loc": r["errors"][0]["loc"]})


def render(ctx, rep, cases):
    def one(case):
        d = os.path.join(ctx.scratch, "r" + common.sha(case))
        os.makedirs(d, exist_ok=True)
        er = os.path.join(d, "p.er")
        open(er, "w", encoding="utf-8").write(case["src"])
        return case, ctx.run([ctx.erg, "check", er], cwd=d, timeout=180)
    for case, p in common.pmap(one, cases):
        crash = common.crash_signature(p)
        if p.timed_out:
            rep.inconc("erg check exceeded 180 s")
        elif crash:
            rep.violation("render-crash:" + crash, f"`erg check` crashed while reporting ({crash})\n{fragrun.strip_ansi(p.serr)[-300:]}\n{case['src']}", case)
        elif p.rc != 1:
            rep.violation(f"render-rc{p.rc}", f"`erg check` exit status {p.rc} for a program with one error\n{case['src']}", case)
        else:
            text = fragrun.strip_ansi(p.serr + p.sout)
            want = case["src"].split("\n")[case["line"] - 1]
            shown = [m.group(2) for m in re.finditer(r"^\s*(\d+) \| (.*)$", text, re.M) if int(m.group(1)) == case["line"]]
            if shown and all(s.rstrip() != want.rstrip() for s in shown):
                rep.violation("render-wrong-line", f"rendered line {case['line']} as {shown[0]!r}, source has {want!r}", case)
            else:
                rep.ok(("render", case["prefix"], case["construct"]))
                rep.count("rendered")


def run(ctx, rep):
    n = ctx.n(3000, 20000)
    cases = [make(f"C24:{ctx.seed}:{i}") for i in range(n)]
    parts = list(common.chunks(cases, max(1, len(cases) // (common.NCPU * 2))))
    for part, res in zip(parts, common.pmap(lambda p: errs.errors_batch(ctx, [c["src"] for c in p]), parts)):
        for c, r in zip(part, res):
            judge(rep, c, r)
    render(ctx, rep, cases[: ctx.n(120, 2000)])
    rep.min_evaluations = n // 2


def replay(ctx, rep, case):
    judge(rep, case, errs.errors_batch(ctx, [case["src"]])[0])
    render(ctx, rep, [case])
