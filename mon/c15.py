"""C15 Constants and .pyc files round-trip through marshal and the reader."""
import json
import os

from . import common, frag, fragrun

LEVEL = "exploration"
RULE = ("(a) modules binding generated constants (Nat of every bit length 1..64 and boundary values, negative Int to -2**31, Float "
        "incl. +-0.0 and extreme exponents, Str of lengths 0..300 and around 65535 over ASCII/BMP/astral text, Bool, None, long "
        "identifiers, nested functions) are compiled for each target 3.7-3.11; the target interpreter unmarshals the .pyc and every "
        "expected constant must be present with the same type and value (ints exactly, floats by hex, strings by bytes); "
        "(b) `erg --mode read` must read every file the compiler wrote, and must reject truncated/mutated files with a message, never "
        "with a panic or signal (a deterministic mutation set). distinct = distinct (constant kind, size class, version) triples")
MANIFEST = {
    "text": "Round trip observed with the interpreter's own unmarshaller for every supported version; the reader is monitored for "
            "crashes on a fixed set of truncations and byte mutations of valid files.",
    "technique": "round-trip monitor (compiler writer -> CPython marshal.loads) + crash monitor on `erg --mode read` over mutated files",
    "note": "constants are matched by (type, value) anywhere in the code object tree; reader mutations are seed-independent",
}
VERSIONS = ["3.7", "3.8", "3.9", "3.10", "3.11"]
TEXT = ["a", "b", "Z", "0", " ", "é", "ß", "日", "本", "😀", "_", "-"]


def gen_consts(rng, n):
    out = []
    for _ in range(n):
        k = rng.random()
        if k < 0.35:
            bits = rng.randint(1, 64)
            v = rng.getrandbits(bits) | (1 << (bits - 1))
            if rng.random() < 0.25:
                v = rng.choice([0, 1, 255, 2**15 - 1, 2**15, 2**30 - 1, 2**30, 2**31 - 1, 2**31, 2**32, 2**45 - 1, 2**44, 2**59, 2**60 - 1, 2**63, 2**64 - 1])
            out.append(("int", v, str(v), f"bits{v.bit_length()}"))
        elif k < 0.45:
            v = -rng.choice([1, 2, 255, 32768, 2**30, 2**31 - 1, 2**31])
            out.append(("int", v, str(v), "neg"))
        elif k < 0.6:
            v = rng.choice([0.0, -0.0, 0.5, -2.25, 1e308, 1e-308, 5e-324, 123456.789, 1e22, 0.1])
            txt = frag.erg_float(abs(v))
            out.append(("float", v, ("-" + txt) if str(v).startswith("-") else txt, "float"))
        elif k < 0.95:
            ln = rng.choice([0, 1, 2, 10, 100, 254, 255, 256, 257, 300, 1000] + ([65534, 65535, 65536, 70000] if rng.random() < 0.1 else []))
            ascii_only = rng.random() < 0.5
            alphabet = ["a", "b", "Z", "0", "_"] if ascii_only else TEXT
            s = "".join(rng.choice(alphabet) for _ in range(ln))
            out.append(("str", s, frag.erg_str(s), f"len{min(ln, 65536)}{'a' if ascii_only else 'u'}"))
        else:
            v = rng.random() < 0.5
            out.append(("bool", v, "True" if v else "False", "bool"))
    return out


def build_module(rng, mid):
    consts = gen_consts(rng, rng.randint(3, 10))
    lines = []
    for i, (kind, v, txt, cls) in enumerate(consts):
        lines.append(f"x{i} = {txt}")
    # a nested function with its own constants, and a long identifier
    inner = gen_consts(rng, 2)
    ident = "v" + "a" * rng.choice([5, 200, 250, 251, 255])
    lines.append(f"{ident} = 1")
    lines.append("f() =")
    for i, (kind, v, txt, cls) in enumerate(inner):
        lines.append(f"    y{i} = {txt}")
    lines.append("    [" + ", ".join(f"y{i}" for i in range(len(inner))) + "]")
    lines.append("print! f(), " + ", ".join(f"x{i}" for i in range(len(consts))) + f", {ident}")
    return {"mid": mid, "src": "\n".join(lines) + "\n", "consts": [(k, v, c) for k, v, _, c in consts + inner], "ident": ident}


def expected_entry(kind, v):
    if kind == "int":
        return ["int", str(v)]
    if kind == "float":
        return ["float", float(v).hex()]
    if kind == "str":
        return ["str", v.encode("utf-8", "surrogatepass").hex()]
    if kind == "bool":
        return ["bool", repr(v)]
    raise ValueError(kind)


def run_module(ctx, m):
    d = os.path.join(ctx.scratch, f"m{m['mid']}")
    os.makedirs(d, exist_ok=True)
    results = []
    for v in m["versions"]:
        sub = os.path.join(d, v)
        os.makedirs(sub, exist_ok=True)
        er = os.path.join(sub, "mod.er")
        open(er, "w", encoding="utf-8").write(m["src"])
        P = common.PY_VERSIONS[v]
        pc = ctx.run([ctx.erg, "--py-command", P, "compile", er], cwd=sub, timeout=180)
        pyc = os.path.join(sub, "mod.pyc")
        if common.crash_signature(pc):
            results.append((v, "crash", common.crash_signature(pc)))
            continue
        if pc.rc != 0 or not os.path.exists(pyc):
            results.append((v, "declined", fragrun.strip_ansi(pc.serr + pc.sout)[-200:]))
            continue
        pd = ctx.run([P, os.path.join(common.VERIF, "mon", "c15_dump.py"), pyc], timeout=120)
        try:
            dump = json.loads(pd.sout)[pyc]
        except Exception:
            results.append((v, "inconclusive", pd.serr[-200:]))
            continue
        if "error" in dump:
            results.append((v, "unloadable", dump["error"]))
            continue
        have = {tuple(x) for x in dump["consts"]}
        missing = [(k, c) for k, val, c in m["consts"] if tuple(expected_entry(k, val)) not in have]
        if missing:
            results.append((v, "missing", missing))
        elif not any(m["ident"] in n for n in dump["names"]):
            results.append((v, "name-missing", m["ident"][:20] + f"...({len(m['ident'])})"))
        else:
            results.append((v, "ok", None))
        if v == "3.11":
            pr = ctx.run([ctx.erg, "--mode", "read", pyc], cwd=sub, timeout=120)
            crash = common.crash_signature(pr)
            if crash or pr.rc != 0:
                results.append((v, "reader-rejects-valid", crash or fragrun.strip_ansi(pr.serr + pr.sout)[-160:]))
            else:
                results.append((v, "reader-ok", None))
    return m, results


def record(rep, m, results):
    for v, st, info in results:
        case = {"src": m["src"], "consts": [[k, (val if k != "float" else float(val).hex()), c] for k, val, c in m["consts"]], "ident": m["ident"],
                "versions": [v], "mid": m["mid"]}
        if st == "ok":
            for k, val, c in m["consts"]:
                rep.distinct.add((k, c, v))
            rep.ok(None, {"version": v, "module_head": m["src"][:200]} if len(m["src"]) < 400 else None)
        elif st == "reader-ok":
            rep.ok(("reader", m["mid"] % 50))
        elif st == "declined":
            rep.declined += 1
        elif st in ("crash", "inconclusive"):
            rep.inconc(f"{st}: {info}")
        elif st == "reader-rejects-valid":
            rep.violation("read:valid-file:" + classify_reader(info), f"`erg --mode read` on a file the compiler wrote: {info}", case)
        else:
            kinds = sorted({c for _, c in info}) if st == "missing" else []
            rep.violation(f"{st}:{v}:" + ",".join(kinds)[:60], f"target {v}: {st} {str(info)[:300]}\nmodule:\n{m['src'][:400]}", case)


def classify_reader(info):
    if "Long" in info:
        return "long-constant"
    if "panic" in info or "signal" in info:
        return info.split()[0]
    return "other"


# ---------------------------------------------------------------- reader on mutated files (seed-independent)
READER_BASES = {
    "hello": 'print! "hello"\n',
    "arith": "x = 1 + 2 * 3\ny = x / 2\nprint! x, y\n",
    "func": "f(a: Int, b: Int): Int = a * b + 1\nprint! f(2, 3)\n",
    "closure": "mk(n: Int) =\n    (x: Int) -> x + n\ng = mk 2\nprint! g(1)\n",
    "loop": "for! 0..<3, i =>\n    print! i\n",
    "strs": 's = "日本語😀" + "abc"\nprint! s, 1.5, True\n',
}


def reader_mutations(ctx, rep):
    d = os.path.join(ctx.scratch, "reader")
    os.makedirs(d, exist_ok=True)
    jobs = []
    for name, src in READER_BASES.items():
        for v in ("3.11", "3.9"):
            sub = os.path.join(d, f"{name}_{v}")
            os.makedirs(sub, exist_ok=True)
            er = os.path.join(sub, "b.er")
            open(er, "w", encoding="utf-8").write(src)
            pc = ctx.run([ctx.erg, "--py-command", common.PY_VERSIONS[v], "compile", er], cwd=sub, timeout=180)
            pyc = os.path.join(sub, "b.pyc")
            if pc.rc != 0 or not os.path.exists(pyc):
                rep.inconc(f"reader base {name}/{v} did not compile")
                continue
            data = open(pyc, "rb").read()
            jobs.append((name, v, "valid", data))
            n = len(data)
            for cut in sorted({0, 1, 4, 8, 15, 16, 17, 20, 24, 32, n // 4, n // 3, n // 2, 2 * n // 3, n - 20, n - 5, n - 1}):
                if 0 <= cut < n:
                    jobs.append((name, v, f"trunc{cut}", data[:cut]))
            for pos in range(16, n, max(1, n // 24)):
                for mask in (0xFF, 0x01, 0x80):
                    b = bytearray(data)
                    b[pos] ^= mask
                    jobs.append((name, v, f"flip{pos}^{mask:02x}", bytes(b)))

    def one(job):
        name, v, mut, data = job
        path = os.path.join(d, f"{name}_{v}", f"{mut.replace('^', '_')}.pyc")
        open(path, "wb").write(data)
        p = ctx.run([ctx.erg, "--mode", "read", path], cwd=os.path.dirname(path), timeout=120)
        return job, p
    for (name, v, mut, data), p in common.pmap(one, jobs):
        case = {"reader": True, "base": name, "version": v, "mutation": mut}
        crash = common.crash_signature(p)
        if p.timed_out:
            rep.violation("read:hang", f"reader did not finish on {name}/{v}/{mut}", case)
        elif crash:
            rep.violation("read:crash:" + crash, f"`erg --mode read` crashed on {name} ({v}) {mut}: {crash}", case)
        elif mut == "valid":
            if p.rc != 0:
                rep.violation(f"read:valid-file:{name}:{v}", f"reader rejects the unmodified {name} file for {v}: {fragrun.strip_ansi(p.serr + p.sout)[-160:]}", case)
            else:
                rep.ok(("reader-valid", name, v))
        else:
            rep.ok(("reader-mut", name, v, mut.rstrip("0123456789^abcdef")), None)
            rep.count("reader_mutations_survived")


def run(ctx, rep):
    rng = ctx.rng()
    mods = []
    for i in range(ctx.n(60, 2500)):
        m = build_module(rng, i)
        m["versions"] = VERSIONS if i % 3 == 0 else [rng.choice(VERSIONS), "3.11"]
        mods.append(m)
    for m, results in common.pmap(lambda m: run_module(ctx, m), mods):
        record(rep, m, results)
    reader_mutations(ctx, rep)
    rep.min_evaluations = 100


def replay(ctx, rep, case):
    if case.get("reader"):
        reader_mutations(ctx, rep)
        return
    m = {"mid": case["mid"], "src": case["src"], "ident": case["ident"], "versions": case["versions"],
         "consts": [(k, (float.fromhex(v) if k == "float" else v), c) for k, v, c in case["consts"]]}
    record(rep, *run_module(ctx, m))
