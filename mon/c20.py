"""C20 Multi-module analysis terminates and resolves every import graph."""
import os
import re

from . import common, fragrun, proj

LEVEL = "exploration"
RULE = ("generated projects of 2..8 modules (chains, fans, diamonds, random DAGs, self-import, 2- and 3-cycles with cross-cycle "
        "references only inside function bodies; typed public bindings `.x: Int = k + imported.x ...`, `.f`, `.s`), each run by the "
        "real hooked `erg run main.er` under several ERG_VERIF_SCHED perturbation seeds. Oracle: the run terminates; per module the "
        "hook trace has thread.begin + inline.analyze == 1 and cache.register == 1 (analysed once) and every join.exit(B) of an "
        "acyclic import comes after cache.register(B); stdout has each module's `top <m>` line exactly once and the values of the "
        "reference evaluation of the module graph; `erg check` and `erg compile` of the entry also terminate with status 0. "
        "distinct = distinct (graph shape, module count, distinct hook-event order) triples")
MANIFEST = {
    "text": "Every generated import graph is analysed and run under perturbed thread timing; hook trace and output are checked "
            "against the reference evaluation of the graph.",
    "technique": "history checker over the analysis hook trace + differential check of program output against a reference evaluation of the module graph, under injected delays",
    "note": "termination is judged with a 240 s budget per run, re-tried alone before it counts; cross-cycle references go through the partner's function in the generated workload (its variable: listed finding, exact project kept)",
}


def read_trace(path):
    ev = []
    try:
        for line in open(path):
            parts = line.rstrip("\n").split(" ", 3)
            if len(parts) == 4:
                ev.append((int(parts[0]), parts[1], parts[2], parts[3]))
    except OSError:
        pass
    return ev


def known_project():
    """the exact project of the listed finding: a 2-cycle whose members read each other's *variable* inside a function body"""
    p = proj.Project(["main", "m1", "m2"], {0: [1]}, {1: [2], 2: [1]}, [1, 2, 3], "cycle2-variable")
    p.cyc_uses_var = True
    return p


def run_one(ctx, case):
    p = known_project() if case["seed"] == "known:cycle-variable" else proj.generate(case["seed"])
    base = os.path.join(ctx.scratch, "p" + common.sha(case))
    results = []
    for k, sched in enumerate(case["scheds"]):
        d = os.path.join(base, f"r{k}")
        main = p.write(d)
        tr = os.path.join(d, "trace.txt")
        env = {"ERG_VERIF_TRACE": tr}
        if sched:
            env["ERG_VERIF_SCHED"] = sched
        pr = ctx.run([ctx.erg, "run", main], cwd=d, timeout=240, env_extra=env)
        if pr.timed_out:
            if os.path.exists(tr):
                os.remove(tr)
            pr = ctx.run([ctx.erg, "run", main], cwd=d, timeout=480, env_extra=env)
        trace = read_trace(tr)
        if not p.has_cycle() and not pr.timed_out and (common.crash_signature(pr) or ("top main" not in pr.sout and fragrun.exc_class(pr.serr) is None)):
            # a failure of an acyclic project under thread-timing perturbation: only a failure that shows again under the same
            # perturbation seed is a verdict; a one-off is reported as inconclusive with its trace (see DESIGN.md, C19/C20)
            again = 0
            for _ in range(4):
                if os.path.exists(tr):
                    os.remove(tr)
                p2 = ctx.run([ctx.erg, "run", main], cwd=d, timeout=480, env_extra=env)
                if common.crash_signature(p2) or ("top main" not in p2.sout and fragrun.exc_class(p2.serr) is None):
                    again += 1
            if again == 0:
                results.append((sched, pr, trace, "unreproduced"))
                continue
        results.append((sched, pr, trace, d))
    d = os.path.join(base, "c")
    main = p.write(d)
    pc = ctx.run([ctx.erg, "check", main], cwd=d, timeout=240)
    pk = ctx.run([ctx.erg, "compile", main], cwd=d, timeout=240)
    return {"case": case, "proj": p, "runs": results, "check": pc, "compile": pk}


def judge(rep, r):
    p, case = r["proj"], r["case"]
    desc = f"shape={p.shape} modules={len(p.names)} dag={p.dag} cyc={p.cyc}"
    for name, pr in (("check", r["check"]), ("compile", r["compile"])):
        if pr.timed_out:
            rep.violation(f"hang:{name}:{p.shape}", f"`erg {name}` did not terminate within 240 s; {desc}", case)
            return
    for sched, pr, trace, d in r["runs"]:
        tag = "cyclic" if p.has_cycle() else "acyclic"
        if d == "unreproduced":
            rep.inconc(f"one-off failure not reproduced in 4 re-runs (sched={sched}; {desc}): {common.crash_signature(pr)} "
                       + fragrun.strip_ansi(pr.serr)[:600] + " TRACE " + " | ".join(f"{a} {b} {c} {os.path.basename(k)}" for a, b, c, k in trace))
            rep.count("unreproduced_one_off_failures")
            continue
        if pr.timed_out:
            rep.violation(f"hang:run:{p.shape}", f"`erg run` did not terminate within 480 s (sched={sched}); {desc}", case)
            return
        crash = common.crash_signature(pr)
        if crash:
            rep.violation(f"crash:{tag}:{crash}", f"crash {crash} (sched={sched}); {desc}\n{fragrun.strip_ansi(pr.serr)[:3000]}\nTRACE:\n" + "\n".join(f"{a} {b} {c} {os.path.basename(d_)}" for a, b, c, d_ in trace), case)
            return
        text = fragrun.strip_ansi(pr.sout)
        errtext = fragrun.strip_ansi(pr.serr)
        if "top main" not in text and fragrun.exc_class(pr.serr) is None:
            if p.has_cycle():
                entries = sum(1 for i, v in p.dag.items() for j in v if j in p.members)
                rep.violation(f"rejected:{p.shape}:members-imported-by-{min(entries, 2)}-outside-edges", f"cyclic project rejected (sched={sched}); {desc}\n{errtext[:1500]}", case)
                return
            rep.violation(f"rejected:{p.shape}", f"acyclic project rejected (sched={sched}); {desc}\n{errtext[:3000]}\nTRACE:\n" + "\n".join(f"{a} {b} {c} {os.path.basename(d_)}" for a, b, c, d_ in trace), case)
            return
        # analysed once
        files = {}
        for seq, th, site, key in trace:
            path = key.split("<-")[0]
            files.setdefault(os.path.basename(path), {}).setdefault(site, []).append(seq)
        for i in p.reachable_set() - {0}:
            f = files.get(p.names[i] + ".er", {})
            analysed = len(f.get("thread.begin", [])) + len(f.get("inline.analyze", []))
            reg = len(f.get("cache.register", []))
            if analysed != 1 or reg != 1:
                rep.violation(f"analysed-{analysed}-registered-{reg}:{tag}", f"module {p.names[i]} analysed {analysed} times, registered {reg} times (sched={sched}); {desc}", case)
                return
            in_cycle = any(i in v for v in p.cyc.values()) or i in p.cyc
            if not in_cycle:
                for seq in f.get("join.exit", []):
                    if not f.get("cache.register") or f["cache.register"][0] > seq:
                        rep.violation(f"join-before-register:{tag}", f"join.exit({p.names[i]}) at #{seq} precedes its cache.register (sched={sched}); {desc}", case)
                        return
        # output
        tops, vals = p.expected_lines()
        lines = text.split("\n")
        for t in tops:
            c = lines.count(t)
            if c != 1:
                rep.violation(f"top-level-ran-{min(c, 2)}-times:{tag}", f"`{t}` printed {c} times (sched={sched}); {desc}\n{errtext[-300:]}", case)
                return
        for v in vals:
            if v not in lines:
                got = [l for l in lines if l.split(" ")[:2] == v.split(" ")[:2]]
                if "Segmentation fault" in errtext:
                    rep.violation(f"python-segfault:{p.shape}", f"the compiled program crashes the interpreter (Segmentation fault) (sched={sched}); {desc}", case)
                    return
                rep.violation(f"wrong-value:{p.shape}", f"expected line `{v}`, got {got} (sched={sched}); {desc}\n{errtext[-300:]}", case)
                return
        order = common.sha([(site, os.path.basename(key)) for _, _, site, key in trace])
        rep.ok((p.shape, len(p.names), order), {"shape": p.shape, "modules": len(p.names), "events": len(trace), "sched": sched} if sched else None)
        rep.count("runs")
        rep.count("hook_events", len(trace))
    for name, pr in (("check", r["check"]), ("compile", r["compile"])):
        if common.crash_signature(pr):
            rep.violation(f"crash:{name}:{common.crash_signature(pr)}", f"`erg {name}` crashed; {desc}", case)
        elif pr.rc != 0:
            rep.violation(f"{name}-rc{pr.rc}:{'cyclic' if p.has_cycle() else 'acyclic'}", f"`erg {name}` exit {pr.rc} although `erg run` works; {desc}\n{fragrun.strip_ansi(pr.serr)[-300:]}", case)
        else:
            rep.ok((name, p.shape))


def run(ctx, rep):
    n = ctx.n(60, 1500)
    cases = [{"seed": f"C20:{ctx.seed}:{i}", "scheds": [None] + [f"{ctx.seed * 1000 + i * 7 + k}:{m}" for k, m in enumerate((2000, 20000, 40000))]}
             for i in range(n)]
    cases.append({"seed": "known:cycle-variable", "scheds": [None]})
    for r in common.pmap(lambda c: run_one(ctx, c), cases):
        judge(rep, r)
    rep.min_evaluations = n


def replay(ctx, rep, case):
    judge(rep, run_one(ctx, case))
