"""C22 Functions cannot perform side effects."""
import random

from . import common, errs

LEVEL = "exploration"
RULE = ("a side-effecting operation (call of a printing procedure, print!, a procedural method on an outer mutable list, a read of a "
        "mutable variable defined outside) is placed at a generated position (statement, call argument, nested call, list/tuple "
        "element, if arm, lambda called in place, binary-operator operand, keyword argument, inner definition, record field, default "
        "argument) inside the body of (a) a function: the front end must report an effect error (HasEffect); (b) a procedure and (c) "
        "the module top level: no effect error may be reported. distinct = distinct (effect, position, context) triples")
MANIFEST = {
    "text": "Generated triples of the same body in function / procedure / top-level context; the effect checker's verdict is read "
            "from the real front end's diagnostics.",
    "technique": "differential monitor over generated programs: effect-error presence vs the context the body is placed in (in-process front end)",
    "note": "a program whose procedure/top-level variant is rejected for another reason is discarded (declined)",
}
EFFECTS = {
    "proc-call": ("effp_!({k})", "Int"),
    "print": ('print!("e{k}")', "NoneType"),
    "push": ("mlist_.push!({k})", "NoneType"),
    "read-outer-mutable": ("mcnt_", "Nat!"),
}
POSITIONS = {
    "statement": "    tmp{k}_ = {e}\n",
    "call-arg": "    tmp{k}_ = idt_({e})\n",
    "nested-call": "    tmp{k}_ = idt_(idt_({e}))\n",
    "list-elem": "    tmp{k}_ = [{e}]\n",
    "tuple-elem": "    tmp{k}_ = (0, {e})\n",
    "if-arm": "    if! True, do!:\n        tmp{k}_ = {e}\n",
    "binop-operand": "    tmp{k}_ = ({e}) == ({e})\n",
    "kw-arg": "    tmp{k}_ = kwf_(1, y := {e})\n",
    "inner-def": "    inner{k}_!() =\n        {e}\n    tmp{k}_ = inner{k}_!()\n",
    "record-field": "    tmp{k}_ = {{fld = {e}}}\n",
    "nested-binding": "    tmp{k}_ =\n        deep{k}_ = {e}\n        deep{k}_\n",
    "lambda-called": "    tmp{k}_ = (() -> {e})()\n",
}
PRELUDE = ('effp_!(n: Int) =\n    print! n\n    n\n'
           'idt_|T|(x: T): T = x\n'
           'kwf_(x: Int, y := 0) = x\n'
           'mlist_ = ![0]\n'
           'mcnt_ = !0\n')
KNOWN_POSITIONS = {"record-field", "nested-binding"}   # listed findings: effects there are accepted inside functions


def build(effect, pos, ctxkind, k):
    e = EFFECTS[effect][0].format(k=k)
    body = POSITIONS[pos].format(e=e, k=k)
    if ctxkind == "func":
        return PRELUDE + f"sub{k}_(a: Int) =\n{body}    a\nprint! sub{k}_(1)\n"
    if ctxkind == "proc":
        return PRELUDE + f"sub{k}_!(a: Int) =\n{body}    a\nprint! sub{k}_!(1)\n"
    top = "".join(l[4:] + "\n" for l in body.rstrip("\n").split("\n"))
    return PRELUDE + top + 'print! "end"\n'


def run(ctx, rep):
    rng = ctx.rng()
    combos = [(e, p) for e in EFFECTS for p in POSITIONS]
    cases = []
    reps = ctx.n(2, 40)
    for r in range(reps):
        for (e, p) in combos:
            k = rng.randint(1, 9999)
            for c in ("func", "proc", "top"):
                cases.append((e, p, c, build(e, p, c, k)))
    results = errs.errors_batch(ctx, [c[3] for c in cases]) if len(cases) < 400 else None
    if results is None:
        results = []
        parts = list(common.chunks(cases, max(1, len(cases) // (common.NCPU * 2))))
        for res in common.pmap(lambda part: errs.errors_batch(ctx, [c[3] for c in part]), parts):
            results += res
    by = {}
    for (e, p, c, src), r in zip(cases, results):
        by.setdefault((e, p, src.split("sub")[1][:6] if "sub" in src else src[-40:]), {})[c] = (src, r)
    # group triples in order
    for i in range(0, len(cases), 3):
        trip = {cases[i + j][2]: (cases[i + j][3], results[i + j]) for j in range(3)}
        e, p = cases[i][0], cases[i][1]
        bad_harness = [c for c, (_, r) in trip.items() if "panic" in r or r.get("lost")]
        if bad_harness:
            rep.inconc(f"front end crashed on {e}/{p}/{bad_harness} (C07)")
            continue
        pk, tk = errs.kinds(trip["proc"][1]), errs.kinds(trip["top"][1])
        fk = errs.kinds(trip["func"][1])
        # (b), (c): no effect error; any other error means the construction itself is not accepted -> declined
        for c, ks in (("proc", pk), ("top", tk)):
            if "HasEffect" in ks:
                rep.violation(f"effect-error-in-{c}:{e}:{p}", f"{e} at {p} in a {c} context is rejected with an effect error:\n{trip[c][0][len(PRELUDE):]}",
                              {"src": trip[c][0], "effect": e, "pos": p, "ctx": c})
        if any(k != "HasEffect" for k in pk + tk):
            rep.declined += 1
            continue
        if "HasEffect" in fk:
            rep.ok((e, p), {"effect": e, "position": p, "function_variant": trip["func"][0][len(PRELUDE):]} if i % 30 == 0 else None)
            rep.count("triples_ok")
        else:
            sig = f"{'known:' if p in KNOWN_POSITIONS else ''}function-effect-accepted:{p}" + ("" if p in KNOWN_POSITIONS else f":{e}")
            rep.violation(sig, f"a function whose body performs `{e}` at position {p} is accepted (errors: {fk}):\n{trip['func'][0][len(PRELUDE):]}",
                          {"src": trip["func"][0], "effect": e, "pos": p, "ctx": "func"})
    rep.min_evaluations = 20


def replay(ctx, rep, case):
    r = errs.errors_batch(ctx, [case["src"]])[0]
    ks = errs.kinds(r)
    if (case["ctx"] == "func") != ("HasEffect" in ks):
        rep.violation(f"function-effect-accepted:{case['pos']}:{case['effect']}", f"replayed: kinds {ks}", case)
    else:
        rep.ok(("replay",))
