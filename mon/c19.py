"""C19 Compilation output is deterministic and schedule-independent."""
import os
import re
import shutil
import subprocess
import tempfile

from . import common, fragrun, proj, c20

LEVEL = "exploration"
RULE = ("generated acyclic multi-module projects (2..8 modules; chains, fans, diamonds, random DAGs), optionally with one unused "
        "binding (warning) or one type error injected per module, compiled K times by the real hooked `erg compile main.er`: 3 runs "
        "unperturbed and K-3 under ERG_VERIF_SCHED delays (2..40 ms) at the analysis-thread boundaries (spawn/insert, thread "
        "begin/end, join enter/exit, cache register). Observed: main.pyc from byte 16 on (the header holds the timestamp), exit "
        "status, and the multiset of diagnostics (kind, number, file, line, message). Oracle: all K observations are equal; thorough "
        "tier: they also equal those of a binary built with the `parallel` feature off. distinct = distinct (project shape, "
        "hook-event order) pairs, i.e. thread interleavings actually seen")
MANIFEST = {
    "text": "Each project is compiled repeatedly under injected thread-timing perturbation; bytecode and diagnostics must not depend on the interleaving.",
    "technique": "metamorphic runtime monitor (repeat-and-compare) under schedule perturbation through hooks; hook trace used to count distinct interleavings",
    "note": "a project whose runs showed fewer than 2 distinct event orders contributes nothing (counted separately); the sequential build is thorough-tier only (64 s extra build from an rsync copy, removed afterwards)",
}

BLOCK = re.compile(r"^(Error|Warning)\[#(\d+)\]: File (\S+), line (\d+)", re.M)


def diagnostics(p):
    text = fragrun.strip_ansi(p.sout + "\n" + p.serr)
    out = []
    for blk in re.split(r"\n(?=(?:Error|Warning)\[#)", text):
        m = BLOCK.search(blk)
        if m:
            last = [l for l in blk.strip().split("\n") if l.strip()][-1]
            out.append((m.group(1), m.group(2), os.path.basename(m.group(3).rstrip(",")), m.group(4), last[:200]))
    return sorted(out)


def make_project(seed):
    import random
    r = random.Random("x" + str(seed))
    p = proj.generate(seed, allow_cycles=False)
    mode = r.choice(["clean", "clean", "warn", "error"])
    if mode == "warn":
        for i in range(len(p.names)):
            if r.random() < 0.7:
                p.extras[i] = f"unused_{i} = {i}"
    elif mode == "error":
        for i in range(1, len(p.names)):
            if r.random() < 0.5:
                p.extras[i] = f'bad_{i}: Int = "s{i}"'
    for i, js in p.unused.items():
        for j in js:
            # the never-looked-into module always has something to report
            p.extras[j] = r.choice([f"unused_{j} = {j}", f'bad_{j}: Int = "s{j}"'])
            mode = mode + "+lazy"
    p.mode = mode
    return p


def compile_once(ctx, erg, d, sched, k):
    tr = os.path.join(d, f"trace{k}.txt")
    if os.path.exists(tr):
        os.remove(tr)
    pyc = os.path.join(d, "main.pyc")
    if os.path.exists(pyc):
        os.remove(pyc)
    env = {"ERG_VERIF_TRACE": tr}
    if sched:
        env["ERG_VERIF_SCHED"] = sched
    p = ctx.run([erg, "compile", os.path.join(d, "main.er")], cwd=d, timeout=300, env_extra=env)
    body = open(pyc, "rb").read()[16:] if os.path.exists(pyc) else None
    trace = c20.read_trace(tr)
    order = common.sha([(site, os.path.basename(key)) for _, _, site, key in trace])
    return {"sched": sched, "p": p, "body": body, "diags": diagnostics(p), "order": order, "events": len(trace)}


def run_one(ctx, case):
    p = make_project(case["seed"])
    d = os.path.join(ctx.scratch, "p" + common.sha(case))
    p.write(d)
    runs = [compile_once(ctx, ctx.erg, d, s, k) for k, s in enumerate(case["scheds"])]
    if case.get("seq_erg"):
        r = compile_once(ctx, case["seq_erg"], d, None, 99)
        r["sequential"] = True
        runs.append(r)
    res = {"case": case, "proj": p, "runs": runs}
    if not any(x["p"].timed_out for x in runs) and compare(p, runs):
        res["repeat"] = []
        for _ in range(2):
            rr = [compile_once(ctx, ctx.erg, d, s, k) for k, s in enumerate(case["scheds"])]
            if case.get("seq_erg"):
                x = compile_once(ctx, case["seq_erg"], d, None, 99)
                x["sequential"] = True
                rr.append(x)
            res["repeat"].append(rr)
    return res


def compare(p, runs):
    """-> None when all runs agree, else (sig, message)"""
    desc = f"shape={p.shape} mode={p.mode} modules={len(p.names)} dag={p.dag}"
    ref = runs[0]
    for x in runs[1:]:
        how = "sequential build" if x.get("sequential") else f"sched={x['sched']}"
        kind = "seq" if x.get("sequential") else "sched"
        crash = common.crash_signature(x["p"]) or common.crash_signature(ref["p"])
        if crash:
            return f"crash:{crash}", f"compile crashed ({how}); {desc}\n{fragrun.strip_ansi(x['p'].serr + ref['p'].serr)[:1500]}"
        if x["p"].rc != ref["p"].rc:
            return f"{kind}:exit-status:{p.mode}", f"exit status {ref['p'].rc} (run 0) vs {x['p'].rc} ({how}); {desc}"
        if x["diags"] != ref["diags"]:
            a, b = set(ref["diags"]), set(x["diags"])
            return (f"{kind}:diagnostics:{p.mode}", f"diagnostics differ between run 0 and {how}: only in run 0 {sorted(a - b)[:3]}, only in the other "
                    f"{sorted(b - a)[:3]} (counts {len(ref['diags'])} vs {len(x['diags'])}); {desc}")
        if x["body"] != ref["body"]:
            la, lb = len(ref["body"] or b""), len(x["body"] or b"")
            first = next((i for i in range(min(la, lb)) if ref["body"][i] != x["body"][i]), min(la, lb)) if ref["body"] and x["body"] else -1
            return f"{kind}:bytecode:{p.mode}", f"main.pyc differs between run 0 and {how} (lengths {la}/{lb}, first difference at byte {16 + first}); {desc}"
    return None


def judge(rep, r):
    p, case, runs = r["proj"], r["case"], r["runs"]
    if any(x["p"].timed_out for x in runs):
        rep.inconc("compile exceeded 300 s")
        return
    finding = compare(p, runs)
    if finding:
        # a difference is a verdict only when it shows again in a repetition of the same K compiles (2 repetitions);
        # a one-off (seen on the unchanged tree under heavy load: lock-timeout panic, SIGSEGV) is reported as inconclusive
        if r.get("repeat") and any(compare(p, rr) for rr in r["repeat"] if not any(x["p"].timed_out for x in rr)):
            rep.violation(finding[0], finding[1], case)
        else:
            rep.inconc("one-off difference not reproduced in 2 repetitions: " + finding[0] + " :: " + finding[1][:700])
            rep.count("unreproduced_one_off_differences")
        return
    orders = {x["order"] for x in runs if not x.get("sequential")}
    if len(orders) < 2 and len(p.names) >= 3:
        rep.count("projects_with_a_single_event_order_seen")
    for o in orders:
        rep.ok((p.shape, o), None)
    rep.count("compiles", len(runs))
    rep.count("hook_events", sum(x["events"] for x in runs))
    rep.count("projects_compared")
    rep.count("distinct_event_orders", len(orders))
    ref = runs[0]
    if len(rep.samples) < 8:
        rep.samples.append({"shape": p.shape, "mode": p.mode, "modules": len(p.names), "compiles": len(runs), "distinct_event_orders": len(orders),
                            "diagnostics": len(ref["diags"]), "pyc_bytes": len(ref["body"] or b"")})


def build_sequential(ctx):
    """erg built with the `parallel` feature off, from an rsync copy of the working tree with `default = [..."parallel"...]` edited."""
    top = tempfile.mkdtemp(prefix="c19seq_", dir=os.environ.get("VERIF_TMP", "/var/tmp"))
    src = os.path.join(top, "src")
    subprocess.run(["rsync", "-a", "--exclude", "target", "--exclude", ".git", ctx.repo + "/", src + "/"], check=True)
    n = 0
    for root, _, files in os.walk(src):
        for f in files:
            if f == "Cargo.toml":
                path = os.path.join(root, f)
                text = open(path).read()
                new = re.sub(r'^default = \[(.*)\]$', lambda m: "default = [" + ", ".join(x for x in [y.strip() for y in m.group(1).split(",")]
                                                                                         if x and x != '"parallel"') + "]", text, flags=re.M)
                if new != text:
                    open(path, "w").write(new)
                    n += 1
    env = dict(ctx.env, CARGO_TARGET_DIR=os.path.join(top, "target"), CARGO_NET_OFFLINE="true")
    p = subprocess.run(["cargo", "build", "--offline", "--features", "verif_hooks", "--bin", "erg"], cwd=src, env=env, capture_output=True, timeout=3000)
    erg = os.path.join(top, "target", "debug", "erg")
    if p.returncode != 0 or not os.path.exists(erg):
        shutil.rmtree(top, ignore_errors=True)
        return None, None, p.stderr.decode(errors="replace")[-500:]
    return top, erg, f"{n} manifests edited"


def run(ctx, rep):
    n = ctx.n(40, 600)
    k = ctx.n(8, 16)
    top = seq_erg = None
    if ctx.tier == "thorough":
        top, seq_erg, note = build_sequential(ctx)
        if not seq_erg:
            rep.inconc("sequential build failed: " + note)
        else:
            # the sequential binary must really be sequential: no analysis threads in its trace
            rep.extra["sequential_build"] = note
    try:
        cases = [{"seed": f"C19:{ctx.seed}:{i}", "seq_erg": seq_erg,
                  "scheds": [None, None, None] + [f"{ctx.seed * 100000 + i * 31 + j}:{m}" for j, m in zip(range(k - 3), [2000, 5000, 10000, 20000, 40000] * 4)]}
                 for i in range(n)]
        for r in common.pmap(lambda c: run_one(ctx, c), cases):
            judge(rep, r)
    finally:
        if top:
            shutil.rmtree(top, ignore_errors=True)
    if rep.extra.get("distinct_event_orders", 0) < 2 * max(1, rep.extra.get("projects_compared", 0)) // 2:
        rep.inconc("fewer than one extra event order per project on average: the perturbation did not vary the schedule")
    rep.min_evaluations = n


def replay(ctx, rep, case):
    case = dict(case, seq_erg=None)
    judge(rep, run_one(ctx, case))
