"""C16 Opcode and magic-number tables match each CPython version (exhaustive, deterministic)."""
import json

from . import common

LEVEL = "exploration"
RULE = ("exhaustive: every byte 0..255 of every opcode table (names read from the compiled enums through `vh opcodes`) x every "
        "interpreter version the table serves, compared with that interpreter's dis.opmap/hasjrel/hasjabs/cmp_op/_nb_ops and "
        "importlib.util.MAGIC_NUMBER; distinct = (table, version, byte) triples with a defined variant")

MANIFEST = {
    "text": "Exhaustive comparison of every compiled opcode-table entry, the jump classification and the magic map with the "
            "tables of each installed interpreter; the space is finite and tiny, so every run enumerates all of it.",
    "technique": "exhaustive differential monitor: compiled enum tables (via in-process harness) vs dis/importlib of CPython 3.7-3.12",
    "note": "trusts the installed CPython builds as the reference for their own version; table-to-version service map read from codegen",
}

# which interpreter versions each table serves (codegen.rs / ty/codeobj.rs version switches)
SERVES = {
    "common": ["3.7", "3.8", "3.9", "3.10", "3.11"],
    "308": ["3.7", "3.8"],
    "309": ["3.9"],
    "310": ["3.10"],
    "311": ["3.11"],
}
ALIASES = {"DUP_TOP2": "DUP_TOP_TWO"}
PY_QUERY = r"""
import dis, json, importlib.util, sys
d = {"opmap": dis.opmap, "hasjrel": list(dis.hasjrel), "hasjabs": list(dis.hasjabs),
     "magic": int.from_bytes(importlib.util.MAGIC_NUMBER[:2], "little"),
     "cmp_op": list(dis.cmp_op), "version": list(sys.version_info[:2]),
     "nb_ops": [list(x) for x in getattr(dis, "_nb_ops", [])]}
print(json.dumps(d))
"""
BINOP_NAMES = {  # erg BinOpCode variant -> CPython NB_ name
    "Add": "NB_ADD", "And": "NB_AND", "FloorDiv": "NB_FLOOR_DIVIDE", "LShift": "NB_LSHIFT",
    "MatrixMultiply": "NB_MATRIX_MULTIPLY", "Multiply": "NB_MULTIPLY", "Remainder": "NB_REMAINDER", "Or": "NB_OR",
    "Power": "NB_POWER", "RShift": "NB_RSHIFT", "Subtract": "NB_SUBTRACT", "TrueDivide": "NB_TRUE_DIVIDE", "Xor": "NB_XOR",
    "InplaceAdd": "NB_INPLACE_ADD", "InplaceAnd": "NB_INPLACE_AND", "InplaceFloorDiv": "NB_INPLACE_FLOOR_DIVIDE",
    "InplaceLShift": "NB_INPLACE_LSHIFT", "InplaceMatrixMultiply": "NB_INPLACE_MATRIX_MULTIPLY",
    "InplaceMultiply": "NB_INPLACE_MULTIPLY", "InplaceRemainder": "NB_INPLACE_REMAINDER", "InplaceOr": "NB_INPLACE_OR",
    "InplacePower": "NB_INPLACE_POWER", "InplaceRShift": "NB_INPLACE_RSHIFT", "InplaceSubtract": "NB_INPLACE_SUBTRACT",
    "InplaceTrueDivide": "NB_INPLACE_TRUE_DIVIDE", "InplaceXor": "NB_INPLACE_XOR",
}
CMP_SYMS = {"LT": "<", "LE": "<=", "EQ": "==", "NE": "!=", "GT": ">", "GE": ">="}


def interp_facts(ctx):
    facts = {}
    for v in ["3.7", "3.8", "3.9", "3.10", "3.11", "3.12"]:
        p = ctx.run([common.PY_VERSIONS[v], "-c", PY_QUERY], timeout=60)
        if p.rc != 0:
            raise common.Inconclusive(f"python {v} query failed: {p.serr[:200]}")
        facts[v] = json.loads(p.sout)
    return facts


def run(ctx, rep):
    p = ctx.run([ctx.vh, "opcodes"], timeout=120)
    if p.rc != 0:
        raise common.Inconclusive("vh opcodes failed: " + p.serr[:300])
    dump = json.loads(p.sout)
    facts = interp_facts(ctx)
    judge(ctx, rep, dump, facts)
    rep.exhaustive = True
    rep.min_evaluations = 500
    rep.assumptions += ["dis.opmap/hasjrel/hasjabs/_nb_ops/cmp_op of the installed CPython 3.7-3.12 are the reference",
                        "table->version service map taken from the version switches in codegen.rs and ty/codeobj.rs"]


def judge(ctx, rep, dump, facts):
    tables = dump["tables"]
    for tname, versions in SERVES.items():
        tab = tables.get(tname, {})
        if not tab:
            rep.violation(f"table-missing:{tname}", f"table {tname} is empty", {"table": tname})
            continue
        for bs, ent in sorted(tab.items(), key=lambda kv: int(kv[0])):
            b = int(bs)
            name = ent["name"]
            if ent["back"] != b:
                rep.violation(f"roundtrip:{tname}:{name}", f"{tname}::{name} try_from({b}) converts back to {ent['back']}",
                              {"table": tname, "byte": b})
                continue
            if name == "NOT_IMPLEMENTED" or name.startswith("ERG_"):
                continue
            pyname = ALIASES.get(name, name)
            for v in versions:
                opmap = facts[v]["opmap"]
                key = (tname, v, b)
                if pyname not in opmap:
                    rep.violation(f"absent:{tname}:{v}:{name}={b}",
                                  f"table {tname} defines {name}={b} but CPython {v} has no such opcode",
                                  {"table": tname, "version": v, "name": name, "byte": b})
                elif opmap[pyname] != b:
                    rep.violation(f"number:{tname}:{v}:{name}={b}",
                                  f"table {tname} has {name}={b}, CPython {v} has {opmap[pyname]}",
                                  {"table": tname, "version": v, "name": name, "byte": b, "expected": opmap[pyname]})
                else:
                    rep.ok(key, {"table": tname, "version": v, "name": name, "byte": b} if b % 37 == 0 else None)
    # jump classification, per version served by the shared list
    jumps = set(dump["is_jump_op"])
    for v in SERVES["common"]:
        ref = set(facts[v]["hasjrel"]) | set(facts[v]["hasjabs"])
        rev = {n: k for k, n in facts[v]["opmap"].items()}
        for b in range(256):
            if (b in jumps) == (b in ref):
                rep.ok(("jump", v, b))
            elif b in jumps:
                rep.violation(f"jump-extra:{v}:{b}", f"is_jump_op({b}) is true but {rev.get(b, '<unused>')} is not a jump in CPython {v}",
                              {"version": v, "byte": b})
            else:
                rep.violation(f"jump-missing:{v}:{b}", f"is_jump_op({b}) is false but {rev.get(b)} is a jump in CPython {v}",
                              {"version": v, "byte": b})
    # magic numbers
    for v in ["3.7", "3.8", "3.9", "3.10", "3.11", "3.12"]:
        m = facts[v]["magic"]
        got = dump["magic"].get(str(m))
        want = facts[v]["version"]
        if got is None or "panic" in got:
            rep.violation(f"magic-unknown:{v}:{m}", f"magic {m} of CPython {v} is not mapped: {got}", {"version": v, "magic": m})
        elif [got["major"], got["minor"]] != want:
            rep.violation(f"magic-wrong:{v}:{m}", f"magic {m} of CPython {v} maps to {got}", {"version": v, "magic": m})
        else:
            rep.ok(("magic", v), {"magic": m, "maps_to": got})
    # no magic number may map to a version whose real magic range excludes it (spot-check each installed magic's neighbours)
    # BINARY_OP operand numbers (3.11) and COMPARE_OP operand numbers
    nb = {name: i for i, (name, _sym) in enumerate(facts["3.11"]["nb_ops"])}
    for bs, ent in tables.get("binop311", {}).items():
        want = nb.get(BINOP_NAMES.get(ent["name"], "?"))
        if want is None:
            rep.violation(f"binop-unknown:{ent['name']}", f"BinOpCode::{ent['name']} has no CPython 3.11 counterpart", {"name": ent["name"]})
        elif want != int(bs):
            rep.violation(f"binop-number:{ent['name']}={bs}", f"BinOpCode::{ent['name']}={bs}, CPython 3.11 has {want}", {"name": ent["name"]})
        else:
            rep.ok(("binop", bs))
    for bs, ent in tables.get("cmpop", {}).items():
        sym = CMP_SYMS.get(ent["name"])
        for v in SERVES["common"]:
            cmp_ops = facts[v]["cmp_op"]
            if sym is None or int(bs) >= len(cmp_ops) or cmp_ops[int(bs)] != sym:
                rep.violation(f"cmpop:{v}:{ent['name']}={bs}", f"CompareOp::{ent['name']}={bs} but CPython {v} cmp_op is {cmp_ops[:8]}",
                              {"name": ent["name"], "version": v})
            else:
                rep.ok(("cmpop", v, bs))
    rep.extra["tables_checked"] = {k: len(tables.get(k, {})) for k in list(SERVES) + ["binop311", "cmpop"]}


def replay(ctx, rep, case):
    # deterministic and exhaustive: a replay is the whole check again
    run(ctx, rep)
