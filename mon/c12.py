"""C12 Optimisation never changes observable behaviour (metamorphic over -o 0..3, plus the independent Python reading)."""
import os

from . import common, frag, fragrun

LEVEL = "translation_validation"
RULE = ("Frag programs into which UNUSED private definitions are injected at random places (top level, procedure bodies, for!/if! "
        "bodies): initialisers that are pure (literal, arithmetic, pure call) and initialisers with effects (print!, a printing "
        "procedure, a mutating method whose effect is observed later, effects inside list/tuple/record literals, nested calls), and USED one-line functions defined and used on the same `;`-joined line; a third of the programs import a helper module whose unused private names sit at the same line/column as the main module's definitions; each "
        "program is run with `erg -o N run` for N = 0, 1, 2, 3 and all four outcomes (stdout after the sentinel, exit status, "
        "exception class) must be equal, and equal to the independent Python reading. distinct = distinct (program skeleton, "
        "injected-kind multiset)")
MANIFEST = {
    "text": "Each generated program is executed at all four optimisation levels; -o 0 (no optimisation) and the Python reading are "
            "the references. Unused definitions with and without effects are injected at every nesting level.",
    "technique": "metamorphic differential monitor: `erg -o N run` for N=0..3 on generated programs with injected unused definitions",
    "note": "raising-but-pure unused initialisers are exercised as a listed finding; same trusted base as C01",
}


def inject(tree, rng, counter):
    """Insert unused definitions into statement lists (recursively)."""
    kinds = []

    def unused_stmts():
        counter[0] += 1
        n = counter[0]
        k = rng.choice(["pure-lit", "pure-arith", "pure-call", "print", "proc", "push", "list", "tuple", "record", "nested", "str-method", "same-line-def-use"])
        kinds.append(k)
        if k == "pure-lit":
            lit = rng.choice(["1", '"s"', "2.5", "True", "[1, 2]"])
            return [("raw", f"u{n}_ = {lit}", "pass")]
        if k == "pure-arith":
            return [("raw", f"u{n}_ = (idi_({n}) * 3) + 1", "pass")]
        if k == "pure-call":
            return [("raw", f"u{n}_ = abs(idi_(-{n}))", "pass")]
        if k == "print":
            return [("raw", f'u{n}_ = print!("eff-print-{n}")', f'print("eff-print-{n}")')]
        if k == "proc":
            return [("raw", f"u{n}_ = effp_!({n})", f"effp_({n})")]
        if k == "push":
            return [("raw", f"m{n}_ = ![0]\nu{n}_ = m{n}_.push!({n})\nprint!(m{n}_)", f"m{n}_ = [0]\nm{n}_.append({n})\nprint(m{n}_)")]
        if k == "list":
            return [("raw", f'u{n}_ = [print!("eff-list-{n}"), print!("eff-list2-{n}")]', f'print("eff-list-{n}")\nprint("eff-list2-{n}")')]
        if k == "tuple":
            return [("raw", f'u{n}_ = (1, effp_!({n}))', f"effp_({n})")]
        if k == "record":
            return [("raw", f'u{n}_ = {{k = print!("eff-rec-{n}")}}', f'print("eff-rec-{n}")')]
        if k == "nested":
            return [("raw", f'u{n}_ = idi_(effp_!({n}))', f"effp_({n})")]
        if k == "same-line-def-use":
            # a USED private function whose definition and only uses share one source line
            return [("raw", f"inc{n}_(x: Int): Int = x + {n}; print!(inc{n}_(2), inc{n}_(3))", f"print({2 + n}, {3 + n})")]
        if k == "str-method":
            return [("raw", f'u{n}_ = "abc".upper()', "pass")]
        raise ValueError(k)

    def walk(stmts, depth):
        out = []
        for s in stmts:
            if rng.random() < 0.25:
                out += unused_stmts()
            k = s[0]
            if k == "if!":
                s = (k, s[1], walk(s[2], depth + 1), walk(s[3], depth + 1))
            elif k == "for_range":
                s = s[:5] + (walk(s[5], depth + 1),)
            elif k in ("for_list", "while"):
                s = s[:3] + (walk(s[3], depth + 1),)
            elif k == "proc":
                s = s[:3] + (walk(s[3], depth + 1),)
            out.append(s)
        if rng.random() < 0.3:
            if depth > 0 and out:
                # a block must not end with a definition (its last statement is the block's value)
                out[-1:-1] = unused_stmts()
            else:
                out += unused_stmts()
        return out
    body = walk(tree, 0)
    prelude = [("raw", 'effp_!(n: Int) =\n    print!("eff-proc", n)\n    n + 1', 'def effp_(n):\n    print("eff-proc", n)\n    return n + 1')]
    return prelude + body, kinds


def add_helper(d, er):
    """Make the program a two-module project: the main module imports `hlp_`, whose only content is UNUSED private names that
    sit at exactly the line and column range of the main module's top-level definitions (positions must never identify a
    definition across modules)."""
    import re
    lines = open(er, encoding="utf-8").read().split("\n")
    lines.insert(1, 'hlp_ = import "hlp_"')
    lines.append("print!(hlp_.pub_)")
    helper = []
    for ln in lines:
        m = re.match(r"^([a-z_][A-Za-z0-9_]*!?)(\(|: | = )", ln)
        helper.append(("z" * len(m.group(1).rstrip("!")) + " = 0") if m and not ln.startswith(("print", "hlp_", "for", "if", "while", "assert")) else "# -")
    helper.append(".pub_ = 7")
    open(os.path.join(d, "hlp_.er"), "w", encoding="utf-8").write("\n".join(helper) + "\n")
    open(er, "w", encoding="utf-8").write("\n".join(lines) + "\n")
    py = er[:-3] + "_ref.py"
    open(py, "a", encoding="utf-8").write("\nprint(7)\n")


def run_one(ctx, case):
    d = os.path.join(ctx.scratch, "c" + common.sha(case))
    os.makedirs(d, exist_ok=True)
    if "erg" in case:
        er, py = os.path.join(d, "k.er"), os.path.join(d, "k_ref.py")
        open(er, "w").write('print!("' + frag.SENTINEL + '")\n' + case["erg"] + "\n")
        open(py, "w").write('print("' + frag.SENTINEL + '")\n' + case["py"] + "\n")
        kinds, skel = [case.get("sig", "known")], None
    else:
        import random
        rng = random.Random(case["seed"])
        tree = frag.generate(rng, frag.Opts(exits=False))
        tree, kinds = inject(tree, rng, [0])
        er, py = fragrun.write_case(d, "p", tree)
        if case.get("helper"):
            kinds.append("helper-module-with-aligned-unused-names")
            add_helper(d, er)
        skel = common.sha([frag.skeleton([s for s in tree if s[0] != "raw"]), sorted(kinds)])
    res = {"case": case, "kinds": kinds, "skel": skel}
    ref = fragrun.outcome(fragrun.py_run(ctx, py))
    outs = []
    for n in range(4):
        p = fragrun.erg_run(ctx, er, extra=("-o", str(n)))
        if p.timed_out:
            res["status"] = "inconclusive"
            res["note"] = f"-o {n} exceeded 120 s"
            return res
        crash = common.crash_signature(p)
        if crash:
            res["status"] = "crash"
            res["note"] = f"-o {n}: {crash}"
            return res
        o = fragrun.outcome(p)
        if not o["started"] and o["exc"] is None and fragrun.compile_rejected(p):
            res["status"] = "declined"
            return res
        outs.append(o)
    res["src"] = open(er, encoding="utf-8").read()
    for n in range(1, 4):
        if not fragrun.same_outcome(outs[0], outs[n]):
            res["status"] = "diff"
            res["detail"] = describe(outs[0], outs[n], f"-o 0 vs -o {n}")
            return res
    usable = not (ref.get("timeout") or ref["exc"] in ("SyntaxError", "NameError", "TypeError"))
    if usable and not fragrun.same_outcome(outs[0], ref):
        res["status"] = "diff"
        res["detail"] = describe(ref, outs[0], "python reading vs -o 0")
        return res
    res["status"] = "same"
    res["lines"] = outs[0]["out"].count("\n")
    return res


def describe(a, b, how):
    la, lb = a["out"].split("\n"), b["out"].split("\n")
    k = 0
    while k < min(len(la), len(lb)) and la[k] == lb[k]:
        k += 1
    return {"how": how, "first_diff_line": k, "ref_line": la[k:k + 1], "other_line": lb[k:k + 1],
            "ref": {"rc": a["rc"], "exc": a["exc"]}, "other": {"rc": b["rc"], "exc": b["exc"]}}


def record(rep, r):
    st = r["status"]
    if st == "same":
        rep.ok(r["skel"], {"program": r["src"][:900], "injected": r["kinds"]} if 0 < len(r["kinds"]) <= 3 and r["lines"] < 15 else None)
        for k in r["kinds"]:
            rep.count("injected_" + k)
    elif st == "declined":
        rep.declined += 1
    elif st == "crash":
        rep.inconc("compiler crash (C07): " + r["note"])
    elif st == "inconclusive":
        rep.inconc(r["note"])
    else:
        d = r["detail"]
        sig = r["case"].get("sig") or ("diff:" + d["how"].replace(" ", ""))
        rep.violation(sig, f"{d}; injected kinds {r['kinds']}\nprogram:\n{r.get('src', '')[:1500]}", r["case"])


# exact inputs of listed findings
KNOWN_CASES = [
    ("known:unused-raising-initialiser-removed", "w = 1 // idi_(0)\nprint!(\"after\")",
     "w = 1 // 0\nprint('after')"),
]


def run(ctx, rep):
    n = ctx.n(120, 1500)
    cases = [{"seed": f"C12:{ctx.seed}:{i}", "helper": i % 3 == 0} for i in range(n)]
    for r in common.pmap(lambda c: run_one(ctx, c), cases):
        record(rep, r)
    for sig, e, p in KNOWN_CASES:
        r = run_one(ctx, {"erg": "idi_(x: Int): Int = x\n" + e, "py": p, "sig": sig})
        if r["status"] == "diff":
            record(rep, r)
    rep.programs = rep.evaluations
    rep.disagreements_checked = len(rep.violations)
    rep.min_evaluations = n // 3
    rep.extra["levels"] = [0, 1, 2, 3]


def replay(ctx, rep, case):
    record(rep, run_one(ctx, case))
