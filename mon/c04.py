"""C04 Compile-time evaluation agrees with run time and never crashes."""
import ast
import os
import re

from . import common, fragrun

LEVEL = "exploration"
RULE = ("constant expressions (trees of depth <= 3 over Int/Nat/Float/Bool literals with + - * / // % **, comparisons, and/or/not; "
        "operand pools include 0, +-1, +-7, 2**31-1, 2**31, 2**32, 2**63, 2**64-1, +-1.5, 1e308, zero divisors) are bound to "
        "constants `N = e`; observed: the singleton type `erg --mode typecheck` assigns to N (the compile-time value), the value "
        "`print! N` shows at run time (or the exception), and the compiler's exit status/stderr. Oracle: a folded value must equal the "
        "run-time value; if run time raises, the compiler must not have folded a value; the compiler never panics/aborts/reports an "
        "internal error; ordinary diagnostics (e.g. 'not a constant expression') are fine. distinct = distinct (operator multiset, "
        "outcome class) pairs")
MANIFEST = {
    "text": "Every generated constant is evaluated twice by the real system, at compile time and at run time, and the two values "
            "are compared exactly (ints exactly, floats by repr, bools).",
    "technique": "differential monitor: compile-time value (typecheck dump) vs run-time value of the same constant, crash monitor on the compiler",
    "note": "expressions whose run-time evaluation the compiler rejects with an ordinary diagnostic are counted as declined",
}
INTS = [0, 1, 2, 3, 7, 10, 255, 65536, 2**31 - 1, 2**31, 2**32, 2**32 + 1, 2**63 - 1, 2**63, 2**64 - 1]
FLOATS = [0.0, 0.5, 1.5, 2.0, 2.25, 10.0, 1e10, 1e308, 1e-5]


def lit_int(rng):
    v = rng.choice(INTS[:8]) if rng.random() < 0.6 else rng.choice(INTS)
    if rng.random() < 0.35:
        if v >= 2**31:
            return f"(0 - {v})", -v
        return (f"(-{v})", -v) if v else ("0", 0)
    return str(v), v


def lit_float(rng):
    v = rng.choice(FLOATS)
    r = repr(v)
    if "e" in r:
        m, ex = r.split("e")
        r = f"{m if '.' in m else m + '.0'}e{int(ex)}"
    if rng.random() < 0.3 and v:
        return f"(-{r})", -v
    return r, v


def gen_num(rng, d, want_float=False):
    if d == 0 or rng.random() < 0.3:
        return lit_float(rng)[0] if want_float and rng.random() < 0.7 else lit_int(rng)[0]
    op = rng.choice(["+", "-", "*", "/", "//", "%", "**", "+", "-", "*"])
    a = gen_num(rng, d - 1, want_float)
    if op == "**":
        b = str(rng.choice([0, 1, 2, 3, 5, 31, 32, 64]))
        # `Int ** Nat` is declared Nat: a negative base with an odd exponent is a listed finding (KNOWN_CASES)
        try:
            if int(b) % 2 == 1 and eval(a) < 0:
                b = str(int(b) + 1)
        except Exception:
            pass
    else:
        b = gen_num(rng, d - 1, want_float and rng.random() < 0.5)
    return f"({a} {op} {b})"


def gen_bool(rng, d):
    if d == 0 or rng.random() < 0.2:
        return rng.choice(["True", "False"])
    k = rng.random()
    if k < 0.12:
        # numerically equal Int and Float operands (the comparison arms for mixed operands are separate code)
        n = rng.choice([0, 1, 2, 7, -1, -2, -7])
        a, b = (str(n) if n >= 0 else f"({n})"), (f"{abs(n)}.0" if n >= 0 else f"(-{abs(n)}.0)")
        if rng.random() < 0.5:
            a, b = b, a
        return f"({a} {rng.choice(['<', '<=', '>', '>='])} {b})"
    if k < 0.55:
        op = rng.choice(["==", "!=", "<", "<=", ">", ">="])
        fl = rng.random() < 0.25 and op not in ("==", "!=")
        return f"({gen_num(rng, d - 1, fl)} {op} {gen_num(rng, d - 1, fl)})"
    if k < 0.85:
        return f"({gen_bool(rng, d - 1)} {rng.choice(['and', 'or'])} {gen_bool(rng, d - 1)})"
    return f"(not {gen_bool(rng, d - 1)})"


def gen_expr(rng):
    k = rng.random()
    d = rng.choice([1, 1, 2, 2, 3])
    if k < 0.55:
        return gen_num(rng, d)
    if k < 0.8:
        return gen_num(rng, d, True)
    return gen_bool(rng, d)


def ops_of(e):
    return tuple(sorted(set(re.findall(r" (\*\*|//|[-+*/%]|==|!=|<=|>=|<|>|and|or) ", e)) | ({"not"} if "not " in e else set())))


TYPE_RE = re.compile(r"^::(N\d+)\(: (.*)\) =$", re.M)


def parse_val(txt):
    try:
        return ast.literal_eval(txt)
    except (ValueError, SyntaxError):
        return None


def same_value(a, b):
    if isinstance(a, bool) or isinstance(b, bool):
        return type(a) is type(b) and a == b
    if isinstance(a, float) or isinstance(b, float):
        return isinstance(a, float) and isinstance(b, float) and repr(a) == repr(b)
    return a == b


def run_batch(ctx, batch):
    """batch: list of expressions evaluated in ONE file (each may fail independently only at compile time)."""
    d = os.path.join(ctx.scratch, "b" + common.sha(batch))
    os.makedirs(d, exist_ok=True)
    out = []
    for i, e in enumerate(batch):
        er = os.path.join(d, f"k{i}.er")
        open(er, "w").write(f"N{i} = {e}\nprint! \"VAL\", N{i}\n")
        pt = ctx.run([ctx.erg, "--mode", "typecheck", er], cwd=d, timeout=120)
        res = {"expr": e}
        crash = common.crash_signature(pt) or common.ice_signature(pt)
        if pt.timed_out:
            res["status"] = "inconclusive"
            out.append(res)
            continue
        if crash:
            res.update(status="crash", sig=crash, detail=fragrun.strip_ansi(pt.serr + pt.sout)[-300:])
            out.append(res)
            continue
        if pt.rc != 0:
            res["status"] = "declined"
            res["detail"] = fragrun.strip_ansi(pt.serr + pt.sout)[-200:]
            out.append(res)
            continue
        m = TYPE_RE.search(fragrun.strip_ansi(pt.sout))
        ty = m.group(2) if m else None
        folded = None
        if ty and ty.startswith("{") and ty.endswith("}") and "," not in ty and "|" not in ty:
            folded = parse_val(ty[1:-1])
        pr = ctx.run([ctx.erg, "run", er], cwd=d, timeout=120)
        crash = common.crash_signature(pr)
        if crash:
            res.update(status="crash", sig=crash, detail=fragrun.strip_ansi(pr.serr)[-300:])
            out.append(res)
            continue
        exc = fragrun.exc_class(pr.serr)
        mv = re.search(r"^VAL (.*)$", pr.sout, re.M)
        res.update(type=ty, folded=folded, exc=exc, runtime=mv.group(1) if mv else None)
        if exc:
            if folded is not None:
                res["status"] = "folded-but-raises"
            else:
                res["status"] = "ok-raises"
        elif mv is None:
            res["status"] = "inconclusive"
        else:
            rv = parse_val(mv.group(1))
            if folded is None:
                res["status"] = "ok-not-folded"
            elif rv is not None and same_value(folded, rv):
                res["status"] = "ok-equal"
            else:
                res["status"] = "mismatch"
        out.append(res)
    return out


def record(rep, r):
    st = r["status"]
    e = r["expr"]
    case = {"expr": e}
    if st in ("ok-equal", "ok-not-folded", "ok-raises"):
        rep.ok((ops_of(e), st), {"expr": e, "compile_time": r.get("type"), "run_time": r.get("runtime") or r.get("exc")} if len(e) < 60 else None)
        rep.count(st)
    elif st == "declined":
        rep.declined += 1
    elif st == "inconclusive":
        rep.inconc("no observation for " + e)
    elif st == "crash":
        rep.violation("compiler-crash:" + r["sig"], f"`N = {e}`: {r['sig']} {r['detail'][-200:]}", case)
    elif st == "mismatch":
        rep.violation("value-mismatch:" + "".join(ops_of(e)[:3]), f"`N = {e}`: compile-time {r['type']} but run time prints {r['runtime']}", case)
    elif st == "folded-but-raises":
        rep.violation("folded-but-raises:" + str(r["exc"]), f"`N = {e}`: compile-time {r['type']} but run time raises {r['exc']}", case)


KNOWN_CASES = [("known:int-pow-odd-declared-nat", "((-2) ** 3)")]


def run(ctx, rep):
    rng = ctx.rng()
    for sig, e in KNOWN_CASES:
        for r in run_batch(ctx, [e]):
            if r["status"] in ("mismatch", "folded-but-raises", "crash"):
                rep.violation(sig, f"`N = {e}`: compile-time {r.get('type')}, run time {r.get('runtime') or r.get('exc')}", {"expr": e})
    exprs = []
    seen = set()
    # every comparison operator on every numerically equal / adjacent mixed pair, both operand orders (each arm of the
    # compile-time comparison table is separate code)
    for n in (0, 1, 2, 7, -1, -2, -7, 2**31, -(2**31), 2**53):
        for m in (n, n + 1):
            for op in ("<", "<=", ">", ">=", "==", "!="):
                a = str(n) if n >= 0 else f"({n})"
                b = f"{abs(m)}.0" if m >= 0 else f"(-{abs(m)}.0)"
                if op in ("==", "!="):
                    continue    # Float has no `==` in Erg
                for e in (f"({a} {op} {b})", f"({b} {op} {a})", f"(({a} - 0) {op} {b})"):
                    if e not in seen:
                        seen.add(e)
                        exprs.append(e)
    n_fixed = len(exprs)
    while len(exprs) - n_fixed < ctx.n(600, 6000):
        e = gen_expr(rng)
        if e not in seen:
            seen.add(e)
            exprs.append(e)
    batches = list(common.chunks(exprs, 10))
    for res in common.pmap(lambda b: run_batch(ctx, b), batches):
        for r in res:
            record(rep, r)
    rep.min_evaluations = 150


def replay(ctx, rep, case):
    for r in run_batch(ctx, [case["expr"]]):
        record(rep, r)
