"""C05 Definite static errors are always rejected."""
import random

from . import common, frag, errs

LEVEL = "exploration"
RULE = ("an accepted Frag program and its twin with exactly ONE injected definite error: Str - Int, Int + Str, Str * Str, a call of a "
        "user function or builtin method with one argument too many / too few, a Str for an Int, an Int for a Str, a Float literal for a Nat/Int parameter or index, a never-defined name, an attribute or method that "
        "Int/Str/List do not have; the erroneous expression is placed at a random line of a random block (top level, function body, "
        "procedure body, for!/if! bodies) and wrapped at random in a list element, an if arm, a lambda body, a call argument, a "
        "record field or a default argument. The twin must be rejected with >= 1 error (front end via `vh errors`), a sample is also "
        "pushed through `erg check`/`erg run` (non-zero exit, nothing executed). distinct = distinct (error kind, wrapper, block kind)")
MANIFEST = {
    "text": "Mutation-style monitoring of the checker: every injected error is definite by construction, the un-injected twin is "
            "accepted, so an accepted twin-with-error is a violation.",
    "technique": "differential monitor: accepted program vs the same program with one injected definite error (in-process front end + CLI sample)",
    "note": "the error classes are deliberately the unambiguous ones named by the property; `not 1`-style cases are not injected",
}
ERRS = {
    "str-minus-int": '("abc" - 1)',
    "int-plus-str": '(1 + "abc")',
    "str-times-str": '("a" * "b")',
    "too-many-args": "errf_(1, 2)",
    "str-for-int": 'errf_("s")',
    "undefined-name": "undefined_name_qx",
    "int-no-attr": "(1).no_such_attr_qx",
    "str-no-method": '"s".no_such_method_qx()',
    "list-no-attr": "[1].no_such_attr_qx",
    "too-few-args-user": "errf2_(1)",
    "too-few-args-method-join": '", ".join()',
    "too-few-args-method-startswith": '"abc".startswith()',
    "too-few-args-method-removeprefix": '"abc".removeprefix()',
    "too-many-args-method": '"abc".upper(1)',
    "int-for-str": "errs_(1)",
    "float-for-nat-user": "errn_(2.0)",
    "float-for-nat-method": '"abc".center(6.5)',
    "float-for-nat-kwarg": '"a,b,c".split(",", maxsplit:=1.0)',
    "str-times-float": '("-" * 3.0)',
    "float-index": "[1, 2, 3][1.0]",
    "float-for-int-user": "errf_(1.5)",
    "negative-for-nat": "errn_(-1)",
}
WRAPS = {
    "bare": "{e}",
    "list-elem": "[{e}]",
    "if-arm": "if(True, do {e}, do 0)",
    "lambda-body": "(() -> {e})",
    "call-arg": "str({e})",
    "nested-call": "str(str({e}))",
    "record-field": "{{fld = {e}}}",
    "tuple-elem": "(0, {e})",
}


def inject(src, rng):
    lines = src.split("\n")
    # candidate insertion points: before any line that starts a statement (not a continuation of a def header)
    cands = []
    for i, l in enumerate(lines):
        if not l.strip() or i < 6:
            continue
        stripped = l.lstrip(" ")
        if stripped.startswith(("do!:", "do:")):
            continue
        cands.append(i)
    i = rng.choice(cands)
    indent = len(lines[i]) - len(lines[i].lstrip(" "))
    ek = rng.choice(list(ERRS))
    wk = rng.choice(list(WRAPS))
    expr = WRAPS[wk].format(e=ERRS[ek])
    if rng.random() < 0.12:
        stmt = f"dflt_{i}_(x: Int, y := {ERRS[ek]}) = x"
        wk = "default-arg"
    else:
        stmt = f"inj{i}_ = {expr}"
    block = "top" if indent == 0 else "nested"
    # which block? look upwards for the opener
    for j in range(i - 1, -1, -1):
        lj = lines[j]
        if lj.strip() and (len(lj) - len(lj.lstrip(" "))) < indent:
            s = lj.strip()
            block = "for" if s.startswith("for!") else "while" if s.startswith("while!") else "if-arm" if s.startswith("do!") else \
                "proc" if "!(" in s.split("=")[0] else "func" if s.endswith("=") else "other"
            break
    new = lines[:i] + [" " * indent + stmt] + lines[i:]
    return "\n".join(new), ek, wk, block


def run(ctx, rep):
    n = ctx.n(500, 6000)
    bases, twins, meta = [], [], []
    for k in range(n):
        rng = random.Random(f"C05:{ctx.seed}:{k}")
        tree = frag.generate(rng, frag.Opts(exits=False))
        base = "errf_(x: Int): Int = x\nerrf2_(x: Int, y: Int): Int = x + y\nerrs_(x: Str): Str = x\nerrn_(n: Nat): Nat = n\n" + frag.to_erg(tree, top=True) + "\n"
        twin, ek, wk, block = inject(base, rng)
        bases.append(base)
        twins.append(twin)
        meta.append((ek, wk, block))

    def work(part):
        idx = [p for p in part]
        rb = errs.errors_batch(ctx, [bases[i] for i in idx])
        rt = errs.errors_batch(ctx, [twins[i] for i in idx])
        return list(zip(idx, rb, rt))
    parts = list(common.chunks(range(n), max(1, n // (common.NCPU * 2))))
    cli = []
    for res in common.pmap(work, parts):
        for i, rb, rt in res:
            ek, wk, block = meta[i]
            case = {"src": twins[i], "kind": ek, "wrap": wk, "block": block}
            if "panic" in rb or rb.get("lost") or not rb.get("ok"):
                rep.declined += 1     # the twin without the error is not accepted: nothing to conclude
                continue
            if "panic" in rt or rt.get("lost"):
                rep.inconc("checker crashed on the erroneous twin (C07): " + str(rt.get("panic", rt.get("note")))[:120])
                continue
            if rt.get("ok") or not rt.get("errors"):
                rep.violation(f"accepted:{ek}:{wk}", f"program with injected {ek} ({wk}, in {block} block) is accepted:\n{first_inj_line(twins[i])}", case)
            else:
                rep.ok((ek, wk, block), {"injected": first_inj_line(twins[i]), "first_error": rt["errors"][0]["kind"]} if i % 40 == 0 else None)
                rep.count("rejected_" + ek)
                if len(cli) < ctx.n(40, 800) and i % 7 == 0:
                    cli.append(i)
    # end to end: `erg check` must fail and `erg run` must not execute anything
    import os
    from . import fragrun

    def cli_one(i):
        d = os.path.join(ctx.scratch, f"cli{i}")
        os.makedirs(d, exist_ok=True)
        er = os.path.join(d, "p.er")
        open(er, "w", encoding="utf-8").write(twins[i])
        pc = ctx.run([ctx.erg, "check", er], cwd=d, timeout=120)
        pr = fragrun.erg_run(ctx, er)
        return i, pc, pr
    for i, pc, pr in common.pmap(cli_one, cli):
        ek, wk, block = meta[i]
        case = {"src": twins[i], "kind": ek, "wrap": wk, "block": block, "cli": True}
        if common.crash_signature(pc) or common.crash_signature(pr):
            rep.inconc("compiler crash on CLI sample (C07)")
        elif pc.rc == 0:
            rep.violation(f"cli-check-accepts:{ek}:{wk}", f"`erg check` exits 0 for a program with injected {ek}", case)
        elif frag.SENTINEL in pr.sout or pr.rc == 0:
            rep.violation(f"cli-executed:{ek}:{wk}", f"`erg run` executed a program with injected {ek} (exit {pr.rc})", case)
        else:
            rep.ok(("cli", ek, wk))
            rep.count("cli_confirmed")
    rep.min_evaluations = n // 4


def first_inj_line(src):
    for l in src.split("\n"):
        if "inj" in l and "_ = " in l or l.strip().startswith("dflt_"):
            return l.strip()
    return "?"


def replay(ctx, rep, case):
    r = errs.errors_batch(ctx, [case["src"]])[0]
    if r.get("ok"):
        rep.violation(f"accepted:{case['kind']}:{case['wrap']}", "replayed: still accepted", case)
    else:
        rep.ok(("replay",))
