"""C02 Type-checked programs do not fail with run-time type errors."""
import os
import random
import re

from . import common, frag, fragrun

LEVEL = "exploration"
RULE = ("generated annotated programs over Nat/Int/Float/Str/Bool/List(Int)/List(Str): literals of both signs, mixed Nat/Int/Float "
        "arithmetic (+ - * // % ** abs min max), comparisons, Str/List/Int/Nat methods from core.d, user functions with annotated "
        "parameters called with subtype arguments, lambdas, if/for!/while!; also every Frag program (C01's fragment). The real "
        "`erg run` is observed: when the checker accepted the program (its first statement, a sentinel print, ran), the exception "
        "class that ends the run must not be TypeError, AttributeError, NameError/UnboundLocalError, nor an exception raised from "
        "Erg's runtime classes under lib/core (e.g. `Nat can't be negative`); ZeroDivisionError, IndexError, AssertionError, "
        "OverflowError, SystemExit are allowed. distinct = distinct (statement-kind multiset, final exception class) pairs")
MANIFEST = {
    "text": "Thousands of accepted programs per run are executed; the final traceback is inspected for type-related failures and "
            "for frames inside Erg's runtime classes.",
    "technique": "runtime monitor on the exception class and traceback frames of executed, checker-accepted generated programs",
    "note": "programs the checker rejects are not judged (counted as declined)",
}

NATS = ["0", "1", "2", "3", "7", "10", "255", "65536", "4294967296"]
NEGS = ["(-1)", "(-2)", "(-7)", "(-100)", "(-65536)"]
FLOATS = ["0.5", "1.0", "2.5", "(-1.5)", "100.25"]
STRS = ['""', '"a"', '"abc"', '"Hello World"', '"42"', '"x,y,z"']


class G:
    def __init__(self, rng):
        self.r = rng
        self.n = 0
        self.env = {"Nat": [], "Int": [], "Float": [], "Str": [], "Bool": [], "LInt": [], "LStr": []}
        self.funcs = []
        self.kinds = []

    def fresh(self, p="v"):
        self.n += 1
        return f"{p}{self.n}"

    def var(self, t):
        pools = {"Int": ["Int", "Nat"], "Float": ["Float", "Int", "Nat"]}.get(t, [t])
        c = [v for p in pools for v in self.env[p]]
        return self.r.choice(c) if c and self.r.random() < 0.6 else None

    def expr(self, t, d=0):
        r = self.r
        v = self.var(t)
        if v and (d >= 2 or r.random() < 0.4):
            return v
        if d >= 3:
            return self.lit(t)
        e = lambda tt: self.expr(tt, d + 1)
        if t == "Nat":
            k = r.randrange(12)
            return [lambda: self.lit("Nat"), lambda: f"({e('Nat')} + {e('Nat')})", lambda: f"({e('Nat')} * {e('Nat')})",
                    lambda: f"len({e('Str')})", lambda: f"len({e('LInt')})", lambda: f"abs({e('Int')})",
                    lambda: f"({e('Nat')} % {r.choice(['2', '3', '7'])})", lambda: f"({e('Nat')} // {r.choice(['2', '3'])})",
                    lambda: f"{e('Int')}.abs()", lambda: f"{e('Nat')}.succ()", lambda: f"max({e('Nat')}, {e('Nat')})",
                    lambda: f"({e('Nat')} ** {r.choice(['0', '1', '2', '3'])})"][k]()
        if t == "Int":
            k = r.randrange(13)
            return [lambda: self.lit("Int"), lambda: f"({e('Int')} + {e('Int')})", lambda: f"({e('Nat')} - {e('Nat')})",
                    lambda: f"({e('Int')} - {e('Int')})", lambda: f"({e('Int')} * {e('Int')})", lambda: f"({e('Nat')} * {e('Int')})",
                    lambda: f"({e('Int')} + {e('Nat')})", lambda: f"({e('Nat')} + {e('Int')})", lambda: f"(-{self.atom('Nat')})",
                    lambda: f"min({e('Int')}, {e('Nat')})", lambda: f"({e('Int')} // {r.choice(['2', '3', '(-2)'])})",
                    lambda: f"({e('Int')} % {r.choice(['2', '3', '(-3)'])})", lambda: f"({e('Nat')} - 1)"][k]()
        if t == "Float":
            k = r.randrange(7)
            return [lambda: self.lit("Float"), lambda: f"({e('Float')} + {e('Float')})", lambda: f"({e('Int')} / {r.choice(['2', '4', '(-2)', '0.5'])})",
                    lambda: f"({e('Float')} * {e('Int')})", lambda: f"({e('Nat')} - {e('Float')})", lambda: f"({e('Float')} - {e('Nat')})",
                    lambda: f"abs({e('Float')})"][k]()
        if t == "Str":
            k = r.randrange(9)
            return [lambda: self.lit("Str"), lambda: f"({e('Str')} + {e('Str')})", lambda: f"{e('Str')}.upper()", lambda: f"{e('Str')}.lower()",
                    lambda: f"({e('Str')} * {e('Nat') if r.random() < 0.3 else r.choice(['0', '1', '2', '3'])})", lambda: f"str({e('Int')})",
                    lambda: f"\"\\{{{e('Int')}}}-\\{{{e('Bool')}}}\"", lambda: f"{e('Str')}.replace(\"a\", \"b\")", lambda: f"{e('Str')}.strip()"][k]()
        if t == "Bool":
            k = r.randrange(9)
            return [lambda: r.choice(["True", "False"]), lambda: f"({e('Int')} < {e('Int')})", lambda: f"({e('Nat')} <= {e('Int')})",
                    lambda: f"({e('Int')} == {e('Nat')})", lambda: f"({e('Str')} == {e('Str')})", lambda: f"({e('Bool')} and {e('Bool')})",
                    lambda: f"(not {e('Bool')})", lambda: f"{e('Str')}.startswith({e('Str')})", lambda: f"({e('Float')} >= {e('Int')})"][k]()
        if t == "LInt":
            k = r.randrange(5)
            return [lambda: "[" + ", ".join(self.atom(r.choice(["Nat", "Int"])) for _ in range(r.randrange(1, 4))) + "]",
                    lambda: f"({e('LInt')} + {e('LInt')})", lambda: f"[{e('Int')}, {e('Nat')}]",
                    lambda: f"list(map((x_ -> x_ - {r.choice(['1', '10', '300'])}), {e('LInt')}))",
                    lambda: "[" + ", ".join(r.choice(NATS) for _ in range(r.randrange(1, 4))) + "]"][k]()
        if t == "LStr":
            k = r.randrange(3)
            return [lambda: "[" + ", ".join(r.choice(STRS) for _ in range(r.randrange(1, 4))) + "]", lambda: f"{e('Str')}.split(\",\")",
                    lambda: f"({e('LStr')} + {e('LStr')})"][k]()
        raise ValueError(t)

    def lit(self, t):
        r = self.r
        if t == "Nat":
            return r.choice(NATS)
        if t == "Int":
            return r.choice(NEGS + NATS[:4])
        if t == "Float":
            return r.choice(FLOATS)
        if t == "Str":
            return r.choice(STRS)
        if t == "Bool":
            return r.choice(["True", "False"])
        if t == "LInt":
            return "[" + ", ".join(r.choice(NATS[:5] + NEGS[:2]) for _ in range(r.randrange(1, 4))) + "]"
        return "[" + ", ".join(r.choice(STRS) for _ in range(r.randrange(1, 4))) + "]"

    def atom(self, t):
        return self.var(t) or self.lit(t)

    def ann(self, t):
        return {"LInt": "List(Int)", "LStr": "List(Str)"}.get(t, t)

    def stmt(self, ind=""):
        r = self.r
        k = r.choice(["bind", "bind", "bind", "annbind", "print", "print", "func", "call", "if", "for", "index", "method", "lambda"])
        self.kinds.append(k)
        T = ["Nat", "Int", "Float", "Str", "Bool", "LInt", "LStr"]
        if k == "bind":
            t = r.choice(T)
            v = self.fresh()
            s = f"{ind}{v} = {self.expr(t)}"
            self.env[t].append(v)
            return [s, f"{ind}print!({v})"]
        if k == "annbind":
            t = r.choice(["Nat", "Int", "Float"])
            sub = {"Int": ["Int", "Nat"], "Float": ["Float", "Int", "Nat"], "Nat": ["Nat"]}[t]
            v = self.fresh()
            s = f"{ind}{v}: {t} = {self.expr(r.choice(sub))}"
            self.env[t].append(v)
            return [s, f"{ind}print!({v})"]
        if k == "print":
            return [f"{ind}print!({self.expr(r.choice(T))})"]
        if k == "func" and not ind:
            name = self.fresh("f")
            pts = [r.choice(["Nat", "Int", "Float", "Str", "LInt"]) for _ in range(r.randrange(1, 3))]
            rt = r.choice(["Nat", "Int", "Float", "Str", "Bool"])
            ps = [self.fresh("p") for _ in pts]
            saved = {k2: list(v2) for k2, v2 in self.env.items()}
            self.env = {k2: [] for k2 in self.env}
            for p, pt in zip(ps, pts):
                self.env[pt].append(p)
            body = self.expr(rt)
            self.env = saved
            annot = f": {rt}" if r.random() < 0.6 else ""
            self.funcs.append((name, pts, rt))
            return [f"{name}({', '.join(p + ': ' + self.ann(t) for p, t in zip(ps, pts))}){annot} = {body}"]
        if k == "call" and self.funcs:
            name, pts, rt = r.choice(self.funcs)
            args = [self.expr(r.choice({"Int": ["Int", "Nat"], "Float": ["Float", "Int", "Nat"]}.get(t, [t]))) for t in pts]
            v = self.fresh()
            self.env[rt].append(v)
            return [f"{ind}{v} = {name}({', '.join(args)})", f"{ind}print!({v})"]
        if k == "if":
            t = r.choice(["Nat", "Int", "Str"])
            v = self.fresh()
            t2 = {"Nat": r.choice(["Nat", "Int"]), "Int": r.choice(["Nat", "Int"]), "Str": "Str"}[t]
            out = [f"{ind}{v} = if({self.expr('Bool')}, do {self.expr(t)}, do {self.expr(t2)})", f"{ind}print!({v})"]
            if t == t2:
                self.env[t].append(v)
            elif {t, t2} == {"Nat", "Int"}:
                self.env["Int"].append(v)
            return out
        if k == "for" and not ind:
            it = self.fresh("i")
            which = r.choice(["range", "list"])
            head = f"for! 0..<{r.choice(['2', '3'])}, {it} =>" if which == "range" else f"for! {self.expr('LInt')}, {it} =>"
            self.env["Nat" if which == "range" else "Int"].append(it)
            body = []
            for _ in range(r.randrange(1, 3)):
                body += [l for l in self.stmt(ind + "    ")]
            self.env["Nat" if which == "range" else "Int"].remove(it)
            return [head] + [b if b.startswith("    ") else "    " + b for b in body]
        if k == "index":
            return [f"{ind}print!({self.expr('LInt')}[{r.choice(['0', '1', '2'])}])"]
        if k == "method":
            m = r.choice([f"{self.atom('Int')}.bit_length()", f"{self.atom('Nat')}.bit_length()", f"{self.atom('Str')}.isdigit()",
                          f"{self.atom('Str')}.count(\"a\")", f"{self.atom('Float')}.is_integer()", f"sum({self.expr('LInt')})",
                          f"len({self.expr('LStr')})",
                          'int("12")', f"str({self.atom('Float')})", f"{self.atom('Int')}.__add__({self.atom('Nat')})",
                          f"abs({self.atom('Int')}) - abs({self.atom('Int')})",
                          f"max({self.expr('LInt')})", f"min({self.expr('LInt')})", f"sorted({self.expr('LInt')})", f"list(reversed({self.expr('LInt')}))"])
            return [f"{ind}print!({m})"]
        if k == "lambda":
            t = r.choice(["Nat", "Int", "Float"])
            lam = self.fresh("g")
            p = self.fresh("p")
            saved = {k2: list(v2) for k2, v2 in self.env.items()}
            self.env = {k2: [] for k2 in self.env}
            self.env[t].append(p)
            body = self.expr(r.choice(["Nat", "Int", "Float"]))
            self.env = saved
            return [f"{ind}{lam} = ({p}: {t}) -> {body}", f"{ind}print!({lam}({self.expr({'Float': r.choice(['Int', 'Float']), 'Int': r.choice(['Nat', 'Int'])}.get(t, t))}))"]
        return [f"{ind}print!({self.expr(r.choice(T))})"]


def generate(seed):
    r = random.Random(seed)
    g = G(r)
    lines = [f'print!("{frag.SENTINEL}")']
    for _ in range(r.randrange(4, 14)):
        lines += g.stmt()
    return "\n".join(lines) + "\n", tuple(sorted(set(g.kinds)))


BAD = {"TypeError", "AttributeError", "NameError", "UnboundLocalError"}
ALLOWED = {"ZeroDivisionError", "IndexError", "AssertionError", "OverflowError", "SystemExit", "KeyError", "RecursionError", "MemoryError"}


def classify(p):
    """-> (verdict, exception class, detail)"""
    err = fragrun.strip_ansi(p.serr)
    exc = fragrun.exc_class(p.serr)
    if exc is None:
        return "ok", None, ""
    last = [l for l in err.strip().split("\n") if l.strip()][-1][:200]
    in_core = bool(re.search(r'File ".*lib[/\\]core[/\\]_erg_\w+\.py"', err.split("Traceback")[-1].split("\n", 1)[-1].rsplit("File", 1)[-1])) \
        if "Traceback" in err else False
    if exc in BAD:
        return "bad", exc, last
    if in_core and exc not in ("ZeroDivisionError", "IndexError", "OverflowError", "RecursionError", "MemoryError"):
        return "bad", exc + "@core", last
    return "ok", exc, last


def msg_class(last):
    s = re.sub(r"-?\d+(\.\d+)?", "N", last)
    s = re.sub(r"'[^']*'", "'_'", s)
    return s[:70]


def run_one(ctx, case):
    d = os.path.join(ctx.scratch, "c" + common.sha(case))
    os.makedirs(d, exist_ok=True)
    if "src" in case:
        src, kinds = case["src"], ("given",)
    elif case.get("frag"):
        src, kinds = frag.to_erg(frag.generate(case["seed"]), top=True) + "\n", ("frag",)
    else:
        src, kinds = generate(case["seed"])
    er = os.path.join(d, "p.er")
    open(er, "w", encoding="utf-8").write(src)
    p = fragrun.erg_run(ctx, er)
    return {"case": case, "src": src, "kinds": kinds, "p": p}


def record(rep, r):
    p, case = r["p"], r["case"]
    if p.timed_out:
        rep.inconc("erg run exceeded its time limit")
        return
    if common.crash_signature(p):
        rep.inconc("compiler crash (reported by C07)")
        return
    out = fragrun.outcome(p)
    if not out["started"]:
        if out["exc"] is None and fragrun.compile_rejected(p):
            rep.declined += 1
            return
        if out["exc"] is None:
            rep.inconc("no sentinel and no diagnostics")
            return
    verdict, exc, last = classify(p)
    if verdict == "bad":
        rep.violation(case.get("sig") or f"{exc}:{msg_class(last)}", f"accepted program ended with {last}\nprogram:\n{r['src'][:1200]}", case)
    else:
        rep.ok((r["kinds"], exc), {"program": r["src"][:500], "ended_with": exc or "normal exit"} if len(r["src"]) < 500 and exc else None)
        rep.count("ended_with_" + (exc or "normal_exit"))


KNOWN_CASES = []


def run(ctx, rep):
    n = ctx.n(500, 6000)
    cases = [{"seed": f"C02:{ctx.seed}:{i}"} for i in range(n)] + [{"seed": f"C02f:{ctx.seed}:{i}", "frag": True} for i in range(n // 4)]
    cases += [{"src": f'print!("{frag.SENTINEL}")\n' + s + "\n", "sig": sig} for sig, s in KNOWN_CASES]
    for r in common.pmap(lambda c: run_one(ctx, c), cases):
        record(rep, r)
    rep.programs = rep.evaluations
    rep.min_evaluations = n // 4


def replay(ctx, rep, case):
    record(rep, run_one(ctx, case))
